// F-mir: per function call edges (resolved), CFG skeleton, return-value flags, assert terminators
use crate::json::Val;
use crate::shape::{dp, loc, tys};
use rustc_hir::def::DefKind;
use rustc_middle::mir::{AggregateKind, AssertKind, Operand, Rvalue, StatementKind, TerminatorKind};
use rustc_middle::ty::{self, TyCtxt, TypeVisitableExt};

pub fn collect(tcx: TyCtxt<'_>) -> Val {
    let mut out = Vec::new();
    for def in tcx.mir_keys(()) {
        let did = def.to_def_id();
        let kind = tcx.def_kind(did);
        if !matches!(kind, DefKind::Fn | DefKind::AssocFn | DefKind::Closure) {
            continue;
        }
        let body = tcx.optimized_mir(did);
        let env = ty::TypingEnv::post_analysis(tcx, did);
        let mut blocks = Vec::new();
        for (_bb, data) in body.basic_blocks.iter_enumerated() {
            let mut flags = Vec::new();
            for st in &data.statements {
                if let StatementKind::Assign(b) = &st.kind {
                    let (place, rv) = &**b;
                    if place.local.as_u32() == 0 && place.projection.is_empty() {
                        match rv {
                            Rvalue::Aggregate(ak, _) => {
                                if let AggregateKind::Adt(adid, vidx, _, _, _) = &**ak {
                                    let adt = tcx.adt_def(*adid);
                                    let vn = adt.variant(*vidx).name.to_string();
                                    flags.push(Val::S(format!("ret={}", vn)));
                                } else {
                                    flags.push(Val::s("ret=agg"));
                                }
                            }
                            _ => flags.push(Val::s("ret=other")),
                        }
                    }
                }
            }
            let term = data.terminator();
            let (_f, line) = loc(tcx, term.source_info.span);
            let exp = term.source_info.span.from_expansion();
            let succs: Vec<Val> = term.successors().map(|s| Val::I(s.as_u32() as i128)).collect();
            let mut v: Vec<(&'static str, Val)> = vec![("s", Val::A(succs))];
            match &term.kind {
                TerminatorKind::Call { func, destination, .. } => {
                    v.push(("t", Val::s("call")));
                    if let Operand::Constant(c) = func {
                        if let ty::FnDef(fd, args) = c.const_.ty().kind() {
                            v.push(("f", Val::S(dp(tcx, *fd))));
                            let ga: Vec<Val> = args
                                .iter()
                                .filter_map(|a| a.as_type().map(|t| Val::S(tys(t))))
                                .collect();
                            if !ga.is_empty() {
                                v.push(("ga", Val::A(ga)));
                            }
                            let a2 = tcx.erase_and_anonymize_regions(*args);
                            if tcx.trait_of_assoc(*fd).is_some()
                                && !a2.has_non_region_param()
                                && !a2.has_aliases()
                                && a2.len() == tcx.generics_of(*fd).count()
                            {
                                if let Ok(Some(i)) = ty::Instance::try_resolve(tcx, env, *fd, a2) {
                                    if i.def_id() != *fd {
                                        v.push(("inst", Val::S(dp(tcx, i.def_id()))));
                                    }
                                }
                            }
                        }
                    }
                    if destination.local.as_u32() == 0 && destination.projection.is_empty() {
                        flags.push(Val::s("ret=call"));
                    }
                }
                TerminatorKind::Assert { msg, .. } => {
                    v.push(("t", Val::s("assert")));
                    let k = match &**msg {
                        AssertKind::BoundsCheck { .. } => "bounds",
                        AssertKind::Overflow(..) => "overflow",
                        AssertKind::OverflowNeg(..) => "overflow",
                        AssertKind::DivisionByZero(..) => "div0",
                        AssertKind::RemainderByZero(..) => "rem0",
                        _ => "other",
                    };
                    v.push(("a", Val::s(k)));
                }
                TerminatorKind::Return => v.push(("t", Val::s("return"))),
                TerminatorKind::SwitchInt { .. } => v.push(("t", Val::s("switch"))),
                TerminatorKind::Goto { .. } => v.push(("t", Val::s("goto"))),
                TerminatorKind::Drop { .. } => v.push(("t", Val::s("drop"))),
                TerminatorKind::UnwindResume => v.push(("t", Val::s("resume"))),
                TerminatorKind::Unreachable => v.push(("t", Val::s("unreachable"))),
                _ => v.push(("t", Val::s("other"))),
            }
            v.push(("ln", Val::I(line as i128)));
            if exp {
                v.push(("exp", Val::B(true)));
            }
            if data.is_cleanup {
                v.push(("cleanup", Val::B(true)));
            }
            if !flags.is_empty() {
                v.push(("fl", Val::A(flags)));
            }
            blocks.push(Val::O(v));
        }
        let (file, line) = loc(tcx, tcx.def_span(did));
        let parent = if matches!(kind, DefKind::Closure) {
            Val::S(dp(tcx, tcx.typeck_root_def_id(did)))
        } else {
            Val::Null
        };
        out.push(Val::obj(vec![
            ("path", Val::S(dp(tcx, did))),
            ("kind", Val::s(format!("{:?}", kind))),
            ("root", parent),
            ("file", Val::S(file)),
            ("line", Val::I(line as i128)),
            ("exp", if tcx.def_span(did).from_expansion() { Val::B(true) } else { Val::Null }),
            ("bbs", Val::A(blocks)),
        ]));
    }
    Val::A(out)
}
