// mtfacts: a rustc_private driver that dumps facts about the type-checked program
// (items, resolved HIR shape trees, MIR call edges and CFG skeletons) as one JSON file.
// It decides nothing; /verif/rules/*.py evaluate the rules.
#![feature(rustc_private)]
#![allow(deprecated)]
extern crate rustc_abi;
extern crate rustc_ast;
extern crate rustc_driver;
extern crate rustc_hir;
extern crate rustc_interface;
extern crate rustc_middle;
extern crate rustc_span;

mod json;
mod shape;
mod items;
mod mirfacts;

use json::Val;
use rustc_driver::Compilation;
use rustc_middle::ty::TyCtxt;

struct Cb;
impl rustc_driver::Callbacks for Cb {
    fn after_analysis<'tcx>(
        &mut self,
        _c: &rustc_interface::interface::Compiler,
        tcx: TyCtxt<'tcx>,
    ) -> Compilation {
        let krate = tcx.crate_name(rustc_span::def_id::LOCAL_CRATE);
        let want = std::env::var("MTFACTS_CRATE").unwrap_or_else(|_| "swift_mt_message".into());
        if krate.as_str() != want {
            return Compilation::Continue;
        }
        let out = match std::env::var("MTFACTS_OUT") {
            Ok(o) => o,
            Err(_) => return Compilation::Continue,
        };
        let t0 = std::time::Instant::now();
        let items = items::collect(tcx);
        let bodies = shape::collect(tcx);
        let mir = mirfacts::collect(tcx);
        let root = Val::obj(vec![
            ("crate", Val::s(krate.as_str())),
            ("driver_version", Val::s("mtfacts-1")),
            ("items", items),
            ("bodies", bodies),
            ("mir", mir),
            ("driver_wall_s", Val::F(t0.elapsed().as_secs_f64())),
        ]);
        let mut s = String::with_capacity(64 << 20);
        root.write(&mut s);
        // one write per process
        let tmp = format!("{}.tmp{}", out, std::process::id());
        std::fs::write(&tmp, s).expect("write facts");
        std::fs::rename(&tmp, &out).expect("rename facts");
        Compilation::Continue
    }
}

fn main() {
    let mut args: Vec<String> = std::env::args().collect();
    // RUSTC_WORKSPACE_WRAPPER: argv[1] is the path of the real rustc
    if args.len() > 1 && (args[1].ends_with("rustc") || args[1].contains("/rustc")) {
        args.remove(1);
    }
    rustc_driver::run_compiler(&args, &mut Cb);
}
