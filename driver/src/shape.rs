// F-shape: resolved HIR shape tree of every function / const body.
use crate::json::Val;
use rustc_hir as hir;
use rustc_hir::def::{DefKind, Res};
use rustc_middle::ty::print::with_no_trimmed_paths;
use rustc_middle::ty::{self, GenericArgsRef, TyCtxt, TypeVisitableExt, TypeckResults};
use rustc_span::def_id::{DefId, LocalDefId};
use rustc_span::Span;

pub fn loc(tcx: TyCtxt<'_>, sp: Span) -> (String, usize) {
    // location of the outermost call site (so that macro-generated code maps to the user's line)
    let sp = sp.source_callsite();
    let sm = tcx.sess.source_map();
    let lo = sm.lookup_char_pos(sp.lo());
    let name = match &lo.file.name {
        rustc_span::FileName::Real(r) => match r.local_path() {
            Some(p) => p.to_string_lossy().to_string(),
            None => format!("{:?}", lo.file.name),
        },
        other => format!("{:?}", other),
    };
    (name, lo.line)
}

pub fn dp(tcx: TyCtxt<'_>, did: DefId) -> String {
    with_no_trimmed_paths!(tcx.def_path_str(did))
}

pub fn tys<'tcx>(t: ty::Ty<'tcx>) -> String {
    with_no_trimmed_paths!(t.to_string())
}

pub fn collect(tcx: TyCtxt<'_>) -> Val {
    let mut out = Vec::new();
    for id in tcx.hir_body_owners() {
        let kind = tcx.def_kind(id);
        if matches!(kind, DefKind::Closure | DefKind::InlineConst | DefKind::AnonConst) {
            continue; // closures are inlined into their parent
        }
        out.push(body_of(tcx, id, kind));
    }
    Val::A(out)
}

fn skip_trait(name: &str) -> bool {
    // derived impls whose bodies no rule reads
    matches!(
        name,
        "core::fmt::Debug"
            | "std::fmt::Debug"
            | "core::clone::Clone"
            | "std::clone::Clone"
            | "core::cmp::PartialEq"
            | "std::cmp::PartialEq"
            | "core::cmp::Eq"
            | "std::cmp::Eq"
            | "core::hash::Hash"
            | "std::hash::Hash"
            | "core::marker::StructuralPartialEq"
            | "std::marker::StructuralPartialEq"
    )
}

fn body_of<'tcx>(tcx: TyCtxt<'tcx>, id: LocalDefId, kind: DefKind) -> Val {
    let did = id.to_def_id();
    let path = dp(tcx, did);
    let span = tcx.def_span(did);
    let (file, line) = loc(tcx, span);
    let exp = span.from_expansion();
    let name = tcx.opt_item_name(did).map(|s| s.to_string()).unwrap_or_default();
    let mut impl_self = Val::Null;
    let mut impl_trait = Val::Null;
    let mut in_trait = Val::Null;
    let mut skip = false;
    if let Some(parent) = tcx.opt_parent(did) {
        match tcx.def_kind(parent) {
            DefKind::Impl { .. } => {
                let st = tcx.type_of(parent).instantiate_identity().skip_norm_wip();
                impl_self = Val::s(tys(st));
                if let Some(tr) = tcx.impl_opt_trait_ref(parent) {
                    let trd = tr.instantiate_identity().skip_norm_wip().def_id;
                    let tn = dp(tcx, trd);
                    if skip_trait(&tn) && exp {
                        skip = true;
                    }
                    impl_trait = Val::s(tn);
                }
            }
            DefKind::Trait => {
                in_trait = Val::s(dp(tcx, parent));
            }
            _ => {}
        }
    }
    // enclosing fn, for items nested in a body (derive-generated visitors)
    let mut parent_fn = Val::Null;
    {
        let hid = tcx.local_def_id_to_hir_id(id);
        for (_pid, node) in tcx.hir_parent_iter(hid) {
            let d = match node {
                hir::Node::Item(it) if matches!(it.kind, hir::ItemKind::Fn { .. }) => {
                    Some(it.owner_id.def_id)
                }
                hir::Node::ImplItem(it) if matches!(it.kind, hir::ImplItemKind::Fn(..)) => {
                    Some(it.owner_id.def_id)
                }
                hir::Node::TraitItem(it) if matches!(it.kind, hir::TraitItemKind::Fn(..)) => {
                    Some(it.owner_id.def_id)
                }
                _ => None,
            };
            if let Some(d) = d {
                if d != id {
                    parent_fn = Val::s(dp(tcx, d.to_def_id()));
                    break;
                }
            }
        }
    }
    let mut fields = vec![
        ("path", Val::S(path)),
        ("name", Val::S(name)),
        ("kind", Val::s(format!("{:?}", kind))),
        ("file", Val::S(file)),
        ("line", Val::I(line as i128)),
        ("exp", if exp { Val::B(true) } else { Val::Null }),
        ("impl_self", impl_self),
        ("impl_trait", impl_trait),
        ("in_trait", in_trait),
        ("parent_fn", parent_fn),
    ];
    if matches!(kind, DefKind::Fn | DefKind::AssocFn) {
        let vis = tcx.visibility(did);
        fields.push(("pub", Val::B(vis.is_public())));
        let sig = tcx.fn_sig(did).instantiate_identity().skip_norm_wip().skip_binder();
        fields.push(("inputs", Val::A(sig.inputs().iter().map(|t| Val::S(tys(*t))).collect())));
        fields.push(("output", Val::S(tys(sig.output()))));
        let mut doc = String::new();
        for a in tcx.get_all_attrs(did) {
            if let Some(s) = a.doc_str() {
                doc.push_str(s.as_str());
                doc.push('\n');
            }
        }
        if !doc.is_empty() {
            fields.push(("doc", Val::S(doc)));
        }
    }
    if !skip {
        let body = tcx.hir_body_owned_by(id);
        let tr = tcx.typeck(id);
        let cx = Cx { tcx, tr, owner: id };
        let params: Vec<Val> = body.params.iter().map(|p| cx.pat(p.pat)).collect();
        fields.push(("params", Val::A(params)));
        fields.push(("body", cx.expr(body.value)));
    } else {
        fields.push(("skipped", Val::B(true)));
    }
    Val::O(fields)
}

struct Cx<'tcx> {
    tcx: TyCtxt<'tcx>,
    tr: &'tcx TypeckResults<'tcx>,
    owner: LocalDefId,
}

impl<'tcx> Cx<'tcx> {
    fn line(&self, sp: Span) -> Val {
        let (_f, l) = loc(self.tcx, sp);
        Val::I(l as i128)
    }

    fn gargs(&self, args: GenericArgsRef<'tcx>) -> Val {
        let v: Vec<Val> = args
            .iter()
            .filter_map(|a| a.as_type().map(|t| Val::S(tys(t))))
            .collect();
        if v.is_empty() {
            Val::Null
        } else {
            Val::A(v)
        }
    }

    fn inst(&self, did: DefId, args: GenericArgsRef<'tcx>) -> Val {
        if self.tcx.trait_of_assoc(did).is_none() {
            return Val::Null;
        }
        let args = self.tcx.erase_and_anonymize_regions(args);
        if args.has_non_region_param() || args.has_infer() || args.has_aliases() {
            return Val::Null;
        }
        if args.len() != self.tcx.generics_of(did).count() {
            return Val::Null;
        }
        let env = ty::TypingEnv::post_analysis(self.tcx, self.owner.to_def_id());
        match ty::Instance::try_resolve(self.tcx, env, did, args) {
            Ok(Some(i)) => {
                let d = i.def_id();
                if d != did {
                    Val::S(dp(self.tcx, d))
                } else {
                    Val::Null
                }
            }
            _ => Val::Null,
        }
    }

    fn res(&self, res: Res) -> Vec<(&'static str, Val)> {
        match res {
            Res::Local(hid) => vec![
                ("k", Val::s("local")),
                ("name", Val::s(self.tcx.hir_name(hid).as_str())),
                ("id", Val::I(hid.local_id.as_u32() as i128)),
            ],
            Res::Def(kind, did) => {
                let mut v = vec![("k", Val::s("def")), ("def", Val::S(dp(self.tcx, did)))];
                let dk = match kind {
                    DefKind::Ctor(..) => "ctor",
                    DefKind::Const { .. } => "const",
                    DefKind::AssocConst { .. } => "assoc_const",
                    DefKind::Fn => "fn",
                    DefKind::AssocFn => "assoc_fn",
                    DefKind::Static { .. } => "static",
                    DefKind::Variant => "variant",
                    DefKind::Struct => "struct",
                    DefKind::Enum => "enum",
                    DefKind::ConstParam => "const_param",
                    _ => "other",
                };
                v.push(("dk", Val::s(dk)));
                v
            }
            Res::SelfCtor(_) => vec![("k", Val::s("def")), ("dk", Val::s("selfctor"))],
            Res::SelfTyAlias { .. } => vec![("k", Val::s("def")), ("dk", Val::s("selfty"))],
            other => vec![("k", Val::s("def")), ("dk", Val::s(format!("{:?}", other)))],
        }
    }

    fn lit(&self, l: &hir::Lit, neg: bool) -> Val {
        use rustc_ast::LitKind::*;
        let mut v = vec![("k", Val::s("lit"))];
        match l.node {
            Str(s, _) => {
                v.push(("t", Val::s("str")));
                v.push(("v", Val::s(s.as_str())));
            }
            ByteStr(ref bs, _) | CStr(ref bs, _) => {
                v.push(("t", Val::s("bytes")));
                let hex: String = bs.as_byte_str().iter().map(|b| format!("{:02x}", b)).collect();
                v.push(("v", Val::S(hex)));
            }
            Byte(b) => {
                v.push(("t", Val::s("byte")));
                v.push(("v", Val::I(b as i128)));
            }
            Char(c) => {
                v.push(("t", Val::s("char")));
                v.push(("v", Val::S(c.to_string())));
            }
            Int(n, _) => {
                v.push(("t", Val::s("int")));
                let n = n.get() as i128;
                v.push(("v", Val::I(if neg { -n } else { n })));
            }
            Float(s, _) => {
                v.push(("t", Val::s("float")));
                v.push(("v", Val::S(format!("{}{}", if neg { "-" } else { "" }, s.as_str()))));
            }
            Bool(b) => {
                v.push(("t", Val::s("bool")));
                v.push(("v", Val::B(b)));
            }
            Err(_) => {
                v.push(("t", Val::s("err")));
            }
        }
        Val::O(v)
    }

    fn qpath(&self, qp: &hir::QPath<'tcx>, hid: hir::HirId) -> Vec<(&'static str, Val)> {
        let res = self.tr.qpath_res(qp, hid);
        let mut v = self.res(res);
        if let hir::QPath::TypeRelative(t, seg) = qp {
            // keep the written type for `Self::CONST` / `Field20::parse`
            let _ = t;
            v.push(("seg", Val::s(seg.ident.as_str())));
        }
        v
    }

    pub fn pat(&self, p: &'tcx hir::Pat<'tcx>) -> Val {
        use hir::PatKind::*;
        match p.kind {
            Missing | Wild => Val::obj(vec![("k", Val::s("_"))]),
            Binding(mode, hid, ident, sub) => Val::obj(vec![
                ("k", Val::s("bind")),
                ("name", Val::s(ident.as_str())),
                ("id", Val::I(hid.local_id.as_u32() as i128)),
                ("mode", Val::s(format!("{:?}", mode))),
                ("sub", Val::opt(sub.map(|s| self.pat(s)))),
            ]),
            Struct(ref qp, fields, rest) => {
                let mut v = vec![("k", Val::s("pstruct"))];
                let r = self.qpath(qp, p.hir_id);
                for (k, val) in r {
                    if k == "def" {
                        v.push(("path", val));
                    }
                }
                v.push((
                    "fields",
                    Val::A(
                        fields
                            .iter()
                            .map(|f| {
                                Val::obj(vec![
                                    ("name", Val::s(f.ident.as_str())),
                                    ("pat", self.pat(f.pat)),
                                ])
                            })
                            .collect(),
                    ),
                ));
                v.push(("rest", Val::B(rest.is_some())));
                Val::O(v)
            }
            TupleStruct(ref qp, pats, _dd) => {
                let mut v = vec![("k", Val::s("pts"))];
                let r = self.qpath(qp, p.hir_id);
                for (k, val) in r {
                    if k == "def" {
                        v.push(("path", val));
                    }
                }
                v.push(("pats", Val::A(pats.iter().map(|x| self.pat(x)).collect())));
                Val::O(v)
            }
            Or(pats) => Val::obj(vec![
                ("k", Val::s("por")),
                ("pats", Val::A(pats.iter().map(|x| self.pat(x)).collect())),
            ]),
            Never => Val::obj(vec![("k", Val::s("pnever"))]),
            Tuple(pats, _) => Val::obj(vec![
                ("k", Val::s("ptup")),
                ("pats", Val::A(pats.iter().map(|x| self.pat(x)).collect())),
            ]),
            Box(x) | Deref(x) => self.pat(x),
            Ref(x, _, _) => Val::obj(vec![("k", Val::s("pref")), ("pat", self.pat(x))]),
            Expr(pe) => self.pat_expr(pe),
            Guard(x, g) => Val::obj(vec![
                ("k", Val::s("pguard")),
                ("pat", self.pat(x)),
                ("guard", self.expr(g)),
            ]),
            Range(lo, hi, end) => Val::obj(vec![
                ("k", Val::s("prange")),
                ("lo", Val::opt(lo.map(|x| self.pat_expr(x)))),
                ("hi", Val::opt(hi.map(|x| self.pat_expr(x)))),
                ("incl", Val::B(matches!(end, hir::RangeEnd::Included))),
            ]),
            Slice(a, mid, b) => Val::obj(vec![
                ("k", Val::s("pslice")),
                ("pre", Val::A(a.iter().map(|x| self.pat(x)).collect())),
                ("mid", Val::opt(mid.map(|x| self.pat(x)))),
                ("post", Val::A(b.iter().map(|x| self.pat(x)).collect())),
            ]),
            Err(_) => Val::obj(vec![("k", Val::s("perr"))]),
        }
    }

    fn pat_expr(&self, pe: &'tcx hir::PatExpr<'tcx>) -> Val {
        match &pe.kind {
            hir::PatExprKind::Lit { lit, negated } => {
                let mut l = self.lit(lit, *negated);
                if let Val::O(ref mut v) = l {
                    v[0] = ("k", Val::s("plit"));
                }
                l
            }
            hir::PatExprKind::Path(qp) => {
                let mut v = vec![("k", Val::s("ppath"))];
                for (k, val) in self.qpath(qp, pe.hir_id) {
                    if k == "def" {
                        v.push(("path", val));
                    }
                }
                Val::O(v)
            }
        }
    }

    fn block(&self, b: &'tcx hir::Block<'tcx>) -> Val {
        let mut stmts = Vec::new();
        for s in b.stmts {
            match s.kind {
                hir::StmtKind::Let(l) => {
                    stmts.push(Val::obj(vec![
                        ("k", Val::s("let")),
                        ("ln", self.line(s.span)),
                        ("pat", self.pat(l.pat)),
                        ("init", Val::opt(l.init.map(|e| self.expr(e)))),
                        ("els", Val::opt(l.els.map(|e| self.block(e)))),
                        (
                            "ty",
                            Val::opt(l.init.map(|e| Val::S(tys(self.tr.expr_ty(e))))),
                        ),
                    ]));
                }
                hir::StmtKind::Item(_) => {}
                hir::StmtKind::Expr(e) | hir::StmtKind::Semi(e) => {
                    stmts.push(self.expr(e));
                }
            }
        }
        Val::obj(vec![
            ("k", Val::s("block")),
            ("stmts", Val::A(stmts)),
            ("expr", Val::opt(b.expr.map(|e| self.expr(e)))),
        ])
    }

    pub fn expr(&self, e: &'tcx hir::Expr<'tcx>) -> Val {
        use hir::ExprKind::*;
        let exp = if e.span.from_expansion() { Val::B(true) } else { Val::Null };
        match e.kind {
            ConstBlock(_) => Val::obj(vec![("k", Val::s("constblock"))]),
            Array(xs) => Val::obj(vec![
                ("k", Val::s("array")),
                ("es", Val::A(xs.iter().map(|x| self.expr(x)).collect())),
            ]),
            Call(f, args) => {
                let mut v = vec![("k", Val::s("call")), ("ln", self.line(e.span)), ("exp", exp)];
                if let Path(ref qp) = f.kind {
                    let res = self.tr.qpath_res(qp, f.hir_id);
                    match res {
                        Res::Def(kind, did) => {
                            v.push(("f", Val::S(dp(self.tcx, did))));
                            if matches!(kind, DefKind::Ctor(..)) {
                                v.push(("ctor", Val::B(true)));
                            }
                            let ga = self.tr.node_args(f.hir_id);
                            v.push(("ga", self.gargs(ga)));
                            if matches!(kind, DefKind::AssocFn) {
                                v.push(("inst", self.inst(did, ga)));
                            }
                        }
                        Res::SelfCtor(_) => {
                            v.push(("f", Val::s("Self")));
                            v.push(("ctor", Val::B(true)));
                        }
                        Res::Local(_) => {
                            v.push(("fe", self.expr(f)));
                        }
                        _ => {
                            v.push(("fe", self.expr(f)));
                        }
                    }
                } else {
                    v.push(("fe", self.expr(f)));
                }
                v.push(("args", Val::A(args.iter().map(|x| self.expr(x)).collect())));
                v.push(("t", Val::S(tys(self.tr.expr_ty(e)))));
                Val::O(v)
            }
            MethodCall(seg, recv, args, _) => {
                let mut v = vec![
                    ("k", Val::s("mcall")),
                    ("ln", self.line(e.span)),
                    ("exp", exp),
                    ("m", Val::s(seg.ident.as_str())),
                ];
                if let Some(did) = self.tr.type_dependent_def_id(e.hir_id) {
                    v.push(("f", Val::S(dp(self.tcx, did))));
                    let ga = self.tr.node_args(e.hir_id);
                    v.push(("ga", self.gargs(ga)));
                    v.push(("inst", self.inst(did, ga)));
                }
                v.push(("recv", self.expr(recv)));
                v.push(("rt", Val::S(tys(self.tr.expr_ty_adjusted(recv)))));
                v.push(("args", Val::A(args.iter().map(|x| self.expr(x)).collect())));
                v.push(("t", Val::S(tys(self.tr.expr_ty(e)))));
                Val::O(v)
            }
            Use(x, _) => self.expr(x),
            Tup(xs) => Val::obj(vec![
                ("k", Val::s("tup")),
                ("es", Val::A(xs.iter().map(|x| self.expr(x)).collect())),
            ]),
            Binary(op, l, r) => Val::obj(vec![
                ("k", Val::s("bin")),
                ("op", Val::s(op.node.as_str())),
                ("l", self.expr(l)),
                ("r", self.expr(r)),
                ("lt", Val::S(tys(self.tr.expr_ty(l)))),
                ("ln", self.line(e.span)),
            ]),
            Unary(op, x) => Val::obj(vec![
                ("k", Val::s("un")),
                ("op", Val::s(match op {
                    hir::UnOp::Deref => "*",
                    hir::UnOp::Not => "!",
                    hir::UnOp::Neg => "-",
                })),
                ("e", self.expr(x)),
            ]),
            Lit(ref l) => self.lit(l, false),
            Cast(x, _) => Val::obj(vec![
                ("k", Val::s("cast")),
                ("e", self.expr(x)),
                ("from", Val::S(tys(self.tr.expr_ty(x)))),
                ("t", Val::S(tys(self.tr.expr_ty(e)))),
                ("ln", self.line(e.span)),
            ]),
            Type(x, _) => self.expr(x),
            DropTemps(x) => self.expr(x),
            Let(l) => Val::obj(vec![
                ("k", Val::s("letx")),
                ("pat", self.pat(l.pat)),
                ("init", self.expr(l.init)),
                ("ty", Val::S(tys(self.tr.expr_ty(l.init)))),
            ]),
            If(c, t, el) => Val::obj(vec![
                ("k", Val::s("if")),
                ("ln", self.line(e.span)),
                ("cond", self.expr(c)),
                ("then", self.expr(t)),
                ("else", Val::opt(el.map(|x| self.expr(x)))),
            ]),
            Loop(b, _label, src, _) => {
                // `while c { body }` is `loop { if c { body } else { break } }`
                if let hir::LoopSource::While = src {
                    if let Some(inner) = b.expr {
                        if let If(c, t, _) = inner.kind {
                            return Val::obj(vec![
                                ("k", Val::s("while")),
                                ("ln", self.line(e.span)),
                                ("cond", self.expr(c)),
                                ("body", self.expr(t)),
                            ]);
                        }
                    }
                }
                Val::obj(vec![
                    ("k", Val::s("loop")),
                    ("ln", self.line(e.span)),
                    ("src", Val::s(format!("{:?}", src))),
                    ("body", self.block(b)),
                ])
            }
            Match(scrut, arms, src) => {
                match src {
                    hir::MatchSource::TryDesugar(_) => {
                        // match Try::branch(x) { .. }
                        if let Call(_, a) = scrut.kind {
                            if a.len() == 1 {
                                return Val::obj(vec![
                                    ("k", Val::s("try")),
                                    ("ln", self.line(e.span)),
                                    ("e", self.expr(&a[0])),
                                    ("t", Val::S(tys(self.tr.expr_ty(&a[0])))),
                                ]);
                            }
                        }
                    }
                    hir::MatchSource::ForLoopDesugar => {
                        // match IntoIterator::into_iter(it) { mut iter => loop { match next(&mut iter) { None => break, Some(pat) => body } } }
                        if let Call(_, a) = scrut.kind {
                            if a.len() == 1 && arms.len() == 1 {
                                if let Loop(lb, _, _, _) = arms[0].body.kind {
                                    let inner = lb.expr.or_else(|| {
                                        lb.stmts.first().and_then(|s| match s.kind {
                                            hir::StmtKind::Expr(x) | hir::StmtKind::Semi(x) => Some(x),
                                            _ => None,
                                        })
                                    });
                                    if let Some(inner) = inner {
                                        if let Match(_, iarms, _) = inner.kind {
                                            if iarms.len() == 2 {
                                                let some = &iarms[1];
                                                let pat = if let hir::PatKind::TupleStruct(_, ps, _) =
                                                    some.pat.kind
                                                {
                                                    if ps.len() == 1 {
                                                        self.pat(&ps[0])
                                                    } else {
                                                        self.pat(some.pat)
                                                    }
                                                } else if let hir::PatKind::Struct(_, fs, _) =
                                                    some.pat.kind
                                                {
                                                    if fs.len() == 1 {
                                                        self.pat(fs[0].pat)
                                                    } else {
                                                        self.pat(some.pat)
                                                    }
                                                } else {
                                                    self.pat(some.pat)
                                                };
                                                return Val::obj(vec![
                                                    ("k", Val::s("for")),
                                                    ("ln", self.line(e.span)),
                                                    ("pat", pat),
                                                    ("iter", self.expr(&a[0])),
                                                    ("it", Val::S(tys(self.tr.expr_ty(&a[0])))),
                                                    ("body", self.expr(some.body)),
                                                ]);
                                            }
                                        }
                                    }
                                }
                            }
                        }
                    }
                    _ => {}
                }
                Val::obj(vec![
                    ("k", Val::s("match")),
                    ("ln", self.line(e.span)),
                    ("exp", exp),
                    ("e", self.expr(scrut)),
                    ("st", Val::S(tys(self.tr.expr_ty(scrut)))),
                    (
                        "arms",
                        Val::A(
                            arms.iter()
                                .map(|a| {
                                    Val::obj(vec![
                                        ("pat", self.pat(a.pat)),
                                        ("guard", Val::opt(a.guard.map(|g| self.expr(g)))),
                                        ("body", self.expr(a.body)),
                                    ])
                                })
                                .collect(),
                        ),
                    ),
                ])
            }
            Closure(c) => {
                let body = self.tcx.hir_body(c.body);
                Val::obj(vec![
                    ("k", Val::s("closure")),
                    ("params", Val::A(body.params.iter().map(|p| self.pat(p.pat)).collect())),
                    ("body", self.expr(body.value)),
                ])
            }
            Block(b, _) => self.block(b),
            Assign(l, r, _) => Val::obj(vec![
                ("k", Val::s("assign")),
                ("ln", self.line(e.span)),
                ("l", self.expr(l)),
                ("r", self.expr(r)),
            ]),
            AssignOp(op, l, r) => Val::obj(vec![
                ("k", Val::s("assignop")),
                ("ln", self.line(e.span)),
                ("op", Val::s(op.node.as_str())),
                ("l", self.expr(l)),
                ("r", self.expr(r)),
            ]),
            Field(x, ident) => Val::obj(vec![
                ("k", Val::s("field")),
                ("e", self.expr(x)),
                ("name", Val::s(ident.as_str())),
                ("bt", Val::S(tys(self.tr.expr_ty_adjusted(x)))),
            ]),
            Index(b, i, _) => Val::obj(vec![
                ("k", Val::s("index")),
                ("ln", self.line(e.span)),
                ("exp", exp),
                ("e", self.expr(b)),
                ("i", self.expr(i)),
                ("bt", Val::S(tys(self.tr.expr_ty_adjusted(b)))),
                ("it", Val::S(tys(self.tr.expr_ty(i)))),
            ]),
            Path(ref qp) => {
                let v = self.qpath(qp, e.hir_id);
                Val::O(v)
            }
            AddrOf(_, m, x) => Val::obj(vec![
                ("k", Val::s("ref")),
                ("mut", if m.is_mut() { Val::B(true) } else { Val::Null }),
                ("e", self.expr(x)),
            ]),
            Break(_, x) => Val::obj(vec![
                ("k", Val::s("break")),
                ("e", Val::opt(x.map(|x| self.expr(x)))),
            ]),
            Continue(_) => Val::obj(vec![("k", Val::s("continue"))]),
            Ret(x) => Val::obj(vec![
                ("k", Val::s("ret")),
                ("ln", self.line(e.span)),
                ("e", Val::opt(x.map(|x| self.expr(x)))),
            ]),
            Become(x) => self.expr(x),
            InlineAsm(_) => Val::obj(vec![("k", Val::s("asm"))]),
            OffsetOf(..) => Val::obj(vec![("k", Val::s("offsetof"))]),
            Struct(qp, fields, tail) => {
                let mut v = vec![("k", Val::s("struct")), ("ln", self.line(e.span)), ("exp", exp)];
                let res = self.tr.qpath_res(qp, e.hir_id);
                if let Res::Def(_, did) = res {
                    v.push(("path", Val::S(dp(self.tcx, did))));
                }
                v.push(("t", Val::S(tys(self.tr.expr_ty(e)))));
                v.push((
                    "fields",
                    Val::A(
                        fields
                            .iter()
                            .map(|f| {
                                Val::obj(vec![
                                    ("name", Val::s(f.ident.as_str())),
                                    ("e", self.expr(f.expr)),
                                ])
                            })
                            .collect(),
                    ),
                ));
                if let hir::StructTailExpr::Base(b) = tail {
                    v.push(("base", self.expr(b)));
                }
                Val::O(v)
            }
            Repeat(x, _) => Val::obj(vec![("k", Val::s("repeat")), ("e", self.expr(x))]),
            Yield(x, _) => self.expr(x),
            UnsafeBinderCast(_, x, _) => self.expr(x),
            Err(_) => Val::obj(vec![("k", Val::s("err"))]),
        }
    }
}
