// minimal JSON value + writer (no dependencies)
pub enum Val {
    Null,
    B(bool),
    I(i128),
    F(f64),
    S(String),
    A(Vec<Val>),
    O(Vec<(&'static str, Val)>),
}

impl Val {
    pub fn s<T: AsRef<str>>(x: T) -> Val {
        Val::S(x.as_ref().to_string())
    }
    pub fn obj(v: Vec<(&'static str, Val)>) -> Val {
        Val::O(v)
    }
    pub fn opt(v: Option<Val>) -> Val {
        v.unwrap_or(Val::Null)
    }
    pub fn write(&self, out: &mut String) {
        match self {
            Val::Null => out.push_str("null"),
            Val::B(b) => out.push_str(if *b { "true" } else { "false" }),
            Val::I(i) => out.push_str(&i.to_string()),
            Val::F(f) => {
                if f.is_finite() {
                    out.push_str(&format!("{}", f))
                } else {
                    out.push_str("null")
                }
            }
            Val::S(s) => write_str(s, out),
            Val::A(a) => {
                out.push('[');
                for (i, v) in a.iter().enumerate() {
                    if i > 0 {
                        out.push(',');
                    }
                    v.write(out);
                }
                out.push(']');
            }
            Val::O(o) => {
                out.push('{');
                let mut first = true;
                for (k, v) in o.iter() {
                    if let Val::Null = v {
                        continue;
                    }
                    if !first {
                        out.push(',');
                    }
                    first = false;
                    write_str(k, out);
                    out.push(':');
                    v.write(out);
                }
                out.push('}');
            }
        }
    }
}

fn write_str(s: &str, out: &mut String) {
    out.push('"');
    for c in s.chars() {
        match c {
            '"' => out.push_str("\\\""),
            '\\' => out.push_str("\\\\"),
            '\n' => out.push_str("\\n"),
            '\r' => out.push_str("\\r"),
            '\t' => out.push_str("\\t"),
            c if (c as u32) < 0x20 => out.push_str(&format!("\\u{:04x}", c as u32)),
            c => out.push(c),
        }
    }
    out.push('"');
}
