// F-items: ADTs, impls, traits
use crate::json::Val;
use crate::shape::{dp, loc, tys};
use rustc_hir as hir;
use rustc_middle::ty::TyCtxt;

fn docs(tcx: TyCtxt<'_>, did: rustc_span::def_id::DefId) -> Val {
    let mut doc = String::new();
    for a in tcx.get_all_attrs(did) {
        if let Some(s) = a.doc_str() {
            doc.push_str(s.as_str());
            doc.push('\n');
        }
    }
    if doc.is_empty() {
        Val::Null
    } else {
        Val::S(doc)
    }
}

pub fn collect(tcx: TyCtxt<'_>) -> Val {
    let mut adts = Vec::new();
    let mut impls = Vec::new();
    let mut traits = Vec::new();
    let items = tcx.hir_crate_items(());
    for item_id in items.free_items() {
        let item = tcx.hir_item(item_id);
        let did = item.owner_id.to_def_id();
        let (file, line) = loc(tcx, item.span);
        let exp = item.span.from_expansion();
        match &item.kind {
            hir::ItemKind::Struct(..) | hir::ItemKind::Enum(..) => {
                let adt = tcx.adt_def(did);
                let mut variants = Vec::new();
                for v in adt.variants() {
                    let mut fields = Vec::new();
                    for f in v.fields.iter() {
                        let t = tcx.type_of(f.did).instantiate_identity().skip_norm_wip();
                        fields.push(Val::obj(vec![
                            ("name", Val::s(f.name.as_str())),
                            ("ty", Val::S(tys(t))),
                            ("pub", Val::B(tcx.visibility(f.did).is_public())),
                            ("doc", docs(tcx, f.did)),
                        ]));
                    }
                    variants.push(Val::obj(vec![
                        ("name", Val::s(v.name.as_str())),
                        ("path", Val::S(dp(tcx, v.def_id))),
                        ("fields", Val::A(fields)),
                    ]));
                }
                adts.push(Val::obj(vec![
                    ("path", Val::S(dp(tcx, did))),
                    ("name", Val::s(tcx.item_name(did).as_str())),
                    ("kind", Val::s(if adt.is_enum() { "enum" } else { "struct" })),
                    ("file", Val::S(file)),
                    ("line", Val::I(line as i128)),
                    ("exp", if exp { Val::B(true) } else { Val::Null }),
                    ("pub", Val::B(tcx.visibility(did).is_public())),
                    ("doc", docs(tcx, did)),
                    ("variants", Val::A(variants)),
                    (
                        "freeze",
                        Val::B({
                            if tcx.generics_of(did).count() == 0 {
                                let t = tcx.type_of(did).instantiate_identity().skip_norm_wip();
                                let env = rustc_middle::ty::TypingEnv::post_analysis(tcx, did);
                                t.is_freeze(tcx, env)
                            } else {
                                true
                            }
                        }),
                    ),
                ]));
            }
            hir::ItemKind::Impl(imp) => {
                let st = tcx.type_of(did).instantiate_identity().skip_norm_wip();
                let tr = tcx
                    .impl_opt_trait_ref(did)
                    .map(|t| dp(tcx, t.instantiate_identity().skip_norm_wip().def_id));
                let mut its = Vec::new();
                for r in imp.items {
                    let idid = r.owner_id.to_def_id();
                    its.push(Val::obj(vec![
                        ("name", Val::s(tcx.item_name(idid).as_str())),
                        ("path", Val::S(dp(tcx, idid))),
                        ("kind", Val::s(format!("{:?}", tcx.def_kind(idid)))),
                    ]));
                }
                impls.push(Val::obj(vec![
                    ("path", Val::S(dp(tcx, did))),
                    ("self", Val::S(tys(st))),
                    ("trait", Val::opt(tr.map(Val::S))),
                    ("file", Val::S(file)),
                    ("line", Val::I(line as i128)),
                    ("exp", if exp { Val::B(true) } else { Val::Null }),
                    ("items", Val::A(its)),
                ]));
            }
            hir::ItemKind::Trait { .. } => {
                let mut its = Vec::new();
                for a in tcx.associated_items(did).in_definition_order() {
                    its.push(Val::obj(vec![
                        ("name", Val::s(a.name().as_str())),
                        ("path", Val::S(dp(tcx, a.def_id))),
                        ("has_default", Val::B(a.defaultness(tcx).has_value())),
                    ]));
                }
                traits.push(Val::obj(vec![
                    ("path", Val::S(dp(tcx, did))),
                    ("file", Val::S(file)),
                    ("line", Val::I(line as i128)),
                    ("items", Val::A(its)),
                ]));
            }
            _ => {}
        }
    }
    // nested impls (inside derive-generated const blocks / fn bodies) are not free items:
    // walk all impl items through the crate's impl list
    Val::obj(vec![
        ("adts", Val::A(adts)),
        ("impls", Val::A(impls)),
        ("traits", Val::A(traits)),
    ])
}
