#!/usr/bin/env python3
"""Maintainer tool: make a patch from a (file, old, new) textual replacement against /repo without touching /repo:
tools/mutate.py out.diff src/messages/mt202.rs 'old text' 'new text'"""
import sys, subprocess, tempfile, os, shutil
out, rel, old, new = sys.argv[1:5]
src = open(os.path.join("/repo", rel)).read()
assert src.count(old) >= 1, "old text not found"
d = tempfile.mkdtemp()
a = os.path.join(d, "a", rel); b = os.path.join(d, "b", rel)
os.makedirs(os.path.dirname(a)); os.makedirs(os.path.dirname(b))
open(a, "w").write(src); open(b, "w").write(src.replace(old, new, 1))
r = subprocess.run(["diff", "-u", os.path.join("a", rel), os.path.join("b", rel)], cwd=d, capture_output=True, text=True)
open(out, "w").write(r.stdout)
shutil.rmtree(d)
print(r.stdout[:600])
