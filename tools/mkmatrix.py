#!/usr/bin/env python3
"""Maintainer tool: markdown rows (seed | change | caught by) for DESIGN.md section 10 from seeded/*/meta.json."""
import glob, json, os, re, sys
HERE = os.path.dirname(os.path.dirname(os.path.abspath(__file__)))
sel = sys.argv[1] if len(sys.argv) > 1 else r"-[5-8]$"
for d in sorted(glob.glob(os.path.join(HERE, "seeded", "*"))):
    sid = os.path.basename(d)
    if not re.search(sel, sid):
        continue
    m = json.load(open(os.path.join(d, "meta.json")))
    notes = open(os.path.join(d, "notes.md")).read().splitlines() if os.path.exists(os.path.join(d, "notes.md")) else [""]
    title = re.sub(r"^#\s*", "", notes[0])
    title = re.sub(r"^(Seed|C\d\d seed|Change)[^-—–]*[-—–]\s*", "", title, flags=re.I)[:110].replace("|", "/")
    rules = sorted(set(re.findall(r"\[(C\d\d)\] \S+ (\w+):", m.get("checks_output", ""))))
    by = {}
    for p, r in rules:
        by.setdefault(p, []).append(r)
    det = m.get("detected_by", [])
    own = m["property"]
    cell = " ".join(("**%s**" % p if p == own else p) for p in det) or "—"
    if own in det:
        cell += " (%s)" % ", ".join(by.get(own, []))
    else:
        cell += " *(missed by %s)*" % own
    print("| %s | %s | %s |" % (sid, title, cell))
