#!/usr/bin/env python3
"""Maintainer tool: re-run all quick checks against every seeded change and refresh meta.json/detected_by."""
import glob, json, os, re, subprocess, sys
HERE = os.path.dirname(os.path.dirname(os.path.abspath(__file__)))
only = sys.argv[1:]
rows = []
for d in sorted(glob.glob(os.path.join(HERE, "seeded", "*"))):
    sid = os.path.basename(d)
    if only and sid not in only:
        continue
    r = subprocess.run([os.path.join(HERE, "tools", "runpatch.py"), os.path.join(d, "patch.diff")], capture_output=True, text=True)
    m = re.search(r"DETECTED BY: (.*)", r.stdout)
    det = m.group(1).split() if m and "(none)" not in m.group(1) else []
    mp = os.path.join(d, "meta.json")
    meta = json.load(open(mp)) if os.path.exists(mp) else {}
    meta["detected_by"] = det
    meta["checks_output"] = r.stdout[-3000:]
    json.dump(meta, open(mp, "w"), indent=1)
    rows.append((sid, meta.get("property"), det))
    print(sid, meta.get("property"), "->", " ".join(det) or "MISSED", flush=True)
