#!/usr/bin/env python3
"""Maintainer tool (never run by a check): record the current findings of a property as known
findings after they were confirmed by hand.   tools/triage.py C01 --rule G1 --why "..." [--match substr]
Entries are keyed by the finding key (rule|fn|instance|ordinal); a key shared by several properties
gets all of them in `properties`."""
import argparse, json, os, subprocess, sys
HERE = os.path.dirname(os.path.dirname(os.path.abspath(__file__)))

ap = argparse.ArgumentParser()
ap.add_argument("prop")
ap.add_argument("--rule", required=True)
ap.add_argument("--why", required=True, help="what fails, with the confirming input")
ap.add_argument("--match", default="")
a = ap.parse_args()
out = subprocess.run([os.path.join(HERE, "check"), a.prop, "--list", "--no-evidence"], capture_output=True, text=True).stdout
kf_path = os.path.join(HERE, "known_findings.json")
kf = json.load(open(kf_path)) if os.path.exists(kf_path) else {"findings": []}
idx = {e["key"]: e for e in kf["findings"]}
n = 0
for line in out.splitlines():
    if not line.startswith("FINDING "):
        continue
    key = line.split("  [", 1)[0][len("FINDING "):].strip()
    rest = line.split("]  ", 1)[1] if "]  " in line else ""
    if not key.startswith(a.rule + "|") or a.match not in line:
        continue
    e = idx.get(key)
    if e is None:
        e = {"key": key, "properties": [], "status": "open", "what": rest, "confirmed_by": a.why}
        kf["findings"].append(e)
        idx[key] = e
    if a.prop not in e["properties"]:
        e["properties"].append(a.prop)
        n += 1
kf["findings"].sort(key=lambda e: e["key"])
json.dump(kf, open(kf_path, "w"), indent=1)
print("recorded", n, "entries for", a.prop, a.rule)
