#!/bin/bash
# maintainer: run every quick check on /repo; non-zero if any fails
cd "$(dirname "$0")/.."
rc=0
for p in C01 C02 C03 C04 C05 C06 C07 C08 C09 C10 C11 C12 C13 C14 C16 C17; do
  out=$(./check $p "$@" 2>&1 | tail -1); st=$?
  echo "$out"
  case "$out" in *"new=0 errors=0"*) ;; *) rc=1;; esac
done
exit $rc
