#!/usr/bin/env python3
"""Maintainer tool: apply a patch to a scratch worktree of /repo (outside /repo and /verif), run the quick checks
against it, print which properties report NEW violations, remove the worktree.
usage: tools/runpatch.py <patch.diff> [C01 C02 ...]"""
import os, subprocess, sys, tempfile, shutil, json
HERE = os.path.dirname(os.path.dirname(os.path.abspath(__file__)))
patch = os.path.abspath(sys.argv[1])
props = sys.argv[2:] or ["C01", "C02", "C03", "C04", "C05", "C06", "C07", "C08", "C09", "C10", "C11", "C12", "C13",
                         "C14", "C16", "C17"]
wt = tempfile.mkdtemp(prefix="vt_", dir="/tmp")
os.rmdir(wt)
subprocess.check_call(["git", "-C", "/repo", "worktree", "add", "-q", "--detach", wt, "HEAD"])
try:
    r = subprocess.run(["git", "-C", wt, "apply", patch], capture_output=True, text=True)
    if r.returncode != 0:
        print("PATCH DOES NOT APPLY:", r.stderr.strip())
        sys.exit(3)
    env = dict(os.environ, VERIF_REPO=wt)
    hit = []
    # first check builds the fact file; the others reuse it and run in parallel
    from concurrent.futures import ThreadPoolExecutor
    def run1(p):
        return p, subprocess.run([os.path.join(HERE, "check"), p, "--no-evidence"], env=env, capture_output=True, text=True)
    first = run1(props[0])
    with ThreadPoolExecutor(max_workers=int(os.environ.get("RUNPATCH_JOBS", "8"))) as ex:
        rest = list(ex.map(run1, props[1:]))
    for p, r in [first] + rest:
        last = r.stdout.strip().splitlines()[-1] if r.stdout.strip() else ""
        if r.returncode == 2:
            print(p, "COMPILE/ANALYSIS ERROR"); print(r.stdout[-1500:]); break
        if r.returncode != 0:
            hit.append(p)
            for line in r.stdout.splitlines():
                if ": " in line and not line.startswith(("KNOWN-FINDING", "VIOLATION", "property=", "FINDING")):
                    print("  [%s] %s" % (p, line[:400]))
                if line.startswith("CHECK-ERROR"):
                    print("  [%s] %s" % (p, line[:300]))
    print("DETECTED BY:", " ".join(hit) if hit else "(none)")
finally:
    subprocess.call(["git", "-C", "/repo", "worktree", "remove", "--force", wt])
    shutil.rmtree(wt, ignore_errors=True)
