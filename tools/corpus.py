#!/usr/bin/env python3
"""Maintainer tool: run every quick check against every seeded change and every benign refactor (in parallel),
refresh seeded/*/meta.json and print what is missed / what alarms.  usage: tools/corpus.py [seeds|benign]"""
import glob, json, os, re, subprocess, sys
from concurrent.futures import ThreadPoolExecutor
HERE = os.path.dirname(os.path.dirname(os.path.abspath(__file__)))
what = sys.argv[1] if len(sys.argv) > 1 else "all"
def run(patch):
    r = subprocess.run([os.path.join(HERE, "tools", "runpatch.py"), patch], capture_output=True, text=True,
                       env=dict(os.environ, RUNPATCH_JOBS="4"))
    m = re.search(r"DETECTED BY: (.*)", r.stdout)
    det = m.group(1).split() if m and "(none)" not in m.group(1) else []
    return patch, det, r.stdout
jobs = []
if what in ("all", "seeds"):
    jobs += sorted(glob.glob(os.path.join(HERE, "seeded", "*", "patch.diff")))
if what in ("all", "benign"):
    jobs += sorted(glob.glob(os.path.join(HERE, "selftest", "benign", "*.diff")))
    jobs += sorted(glob.glob(os.path.join(HERE, "selftest", "mutants", "*.diff")))
miss, alarm = [], []
with ThreadPoolExecutor(max_workers=4) as ex:
    for patch, det, out in ex.map(run, jobs):
        if "/seeded/" in patch:
            d = os.path.dirname(patch)
            mp = os.path.join(d, "meta.json")
            meta = json.load(open(mp))
            meta["detected_by"] = det
            meta["checks_output"] = out[-3000:]
            json.dump(meta, open(mp, "w"), indent=1)
            if meta["property"] not in det:
                miss.append((os.path.basename(d), det))
        elif "/mutants/" in patch:
            p = os.path.basename(patch).split("-")[0]
            if p not in det:
                miss.append((os.path.basename(patch), det))
        else:
            if det:
                alarm.append((os.path.basename(patch), det))
                open("/tmp/benign_eval_%s.log" % os.path.basename(patch), "w").write(out)
        print(os.path.basename(os.path.dirname(patch)) if "/seeded/" in patch else os.path.basename(patch), "->", " ".join(det) or "-", flush=True)
print("MISSED (not caught by own property):", miss)
print("BENIGN ALARMS:", alarm)
