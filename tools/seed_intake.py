#!/usr/bin/env python3
"""Maintainer tool: confirm a seeded change delivered by a sub-agent and file it under /verif/seeded/<id>/.
usage: tools/seed_intake.py <agent worktree> <PROP> <n> <seed id>
Confirms in the agent's scratch worktree (warm target dir): demo passes on the clean tree; with the patch the
existing suite still passes and the demo fails. Then runs every quick check against a scratch worktree with the
patch applied and records which checks report it."""
import json, os, re, shutil, subprocess, sys, time
HERE = os.path.dirname(os.path.dirname(os.path.abspath(__file__)))
wt, prop, n, sid = sys.argv[1:5]
src = os.path.join(wt, "seed_out", n)
dst = os.path.join(HERE, "seeded", sid)
os.makedirs(dst, exist_ok=True)
patch = os.path.join(src, "patch.diff")
demo = None
for f in ("demo_test.rs", "demo.rs"):
    if os.path.exists(os.path.join(src, f)):
        demo = f
assert demo, "no demo"
def sh(cmd, **kw):
    return subprocess.run(cmd, shell=True, cwd=wt, capture_output=True, text=True, **kw)
sh("git checkout -- . && git status --short")
is_test = demo == "demo_test.rs"
tgt = os.path.join(wt, "tests" if is_test else "examples", "seed_demo_%s.rs" % sid.replace("-", "_"))
shutil.copy(os.path.join(src, demo), tgt)
name = os.path.basename(tgt)[:-3]
run_demo = ("cargo test --offline --test %s 2>&1 | tail -15" % name) if is_test else \
           ("cargo run --offline --example %s 2>&1 | tail -15; echo EXIT=${PIPESTATUS[0]}" % name)
meta = {"property": prop, "seed": sid, "ran": []}
r = sh(run_demo)
clean_ok = ("test result: ok" in r.stdout) if is_test else ("EXIT=0" in r.stdout)
meta["ran"].append({"cmd": run_demo + "   (clean tree)", "ok": clean_ok, "tail": r.stdout[-600:]})
r = sh("git apply %s" % patch)
assert r.returncode == 0, r.stderr
r = sh("cargo test --workspace --offline 2>&1 | grep -E 'test result|FAILED|failed' | head -20")
suite = r.stdout
# the demo itself is part of --workspace when it is a test: separate its result
r2 = sh(run_demo)
demo_fails = ("test result: FAILED" in r2.stdout or "panicked" in r2.stdout or "error" in r2.stdout) if is_test else ("EXIT=0" not in r2.stdout)
meta["ran"].append({"cmd": "cargo test --workspace --offline   (patched tree; includes the demo)", "summary": suite})
meta["ran"].append({"cmd": run_demo + "   (patched tree)", "fails": demo_fails, "tail": r2.stdout[-800:]})
# existing suite: all result lines ok except the demo's own binary
lines = [l for l in suite.splitlines() if "test result" in l]
failed = [l for l in lines if "FAILED" in l]
meta["existing_suite_passes_with_patch"] = len(failed) <= (1 if is_test and demo_fails else 0)
meta["demo_passes_clean"] = clean_ok
meta["demo_fails_patched"] = demo_fails
os.remove(tgt)
sh("git checkout -- . ")
for f in ("patch.diff", demo, "notes.md"):
    if os.path.exists(os.path.join(src, f)):
        shutil.copy(os.path.join(src, f), os.path.join(dst, f))
# run the checks
r = subprocess.run([os.path.join(HERE, "tools", "runpatch.py"), os.path.join(dst, "patch.diff")], capture_output=True, text=True)
meta["checks_output"] = r.stdout[-3000:]
m = re.search(r"DETECTED BY: (.*)", r.stdout)
meta["detected_by"] = m.group(1).split() if m and "(none)" not in m.group(1) else []
notes = open(os.path.join(src, "notes.md")).read() if os.path.exists(os.path.join(src, "notes.md")) else ""
meta["needs_to_manifest"] = notes[:1500]
json.dump(meta, open(os.path.join(dst, "meta.json"), "w"), indent=1)
print(json.dumps({k: meta[k] for k in ("seed", "demo_passes_clean", "demo_fails_patched", "existing_suite_passes_with_patch", "detected_by")}))
print(r.stdout[-1200:])
