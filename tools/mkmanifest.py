#!/usr/bin/env python3
"""Writes /verif/MANIFEST.json from the table below (maintainer tool)."""
import json, os
HERE = os.path.dirname(os.path.dirname(os.path.abspath(__file__)))

TRUST = ("Trusted base: rustc nightly front end (name resolution, type check, MIR construction); the mtfacts "
         "extractor (driver/) and the rule layer (rules/*.py). Decides the named structural necessary "
         "conditions on the current source, for all inputs at once; it does not decide value-level "
         "equality (see DESIGN.md §4 'not decided').")

CHECKS = {
 "C01": ("other", "G1 completeness-before-Ok, G2 anchored extraction, G3 no discarded parse error, G4 every parsed field written back, G7 option letters detectable, G8 loop progress — over all 30 parse_from_block4 and 334 parse call sites", "§4 C01",
         "must-pass-through / error-discipline / may-flow analysis over resolved HIR (rustc_private driver)"),
}
NA = {
 "C15": "quantifies over random draws of the external datafake-rs generators interpreted at run time; no sound static argument in reach bounds what those generators emit (DESIGN.md §4 C15)",
}
PENDING = {}

def main():
    props = [json.loads(l)["id"] for l in open(os.path.join(HERE, "properties.jsonl"))]
    checks = []
    for pid in props:
        if pid in CHECKS:
            cat, text, ref, tech = CHECKS[pid]
            checks.append({
                "property_id": pid,
                "quick_cmd": "./check %s --tier quick" % pid,
                "thorough_cmd": "./check %s --tier thorough" % pid,
                "evidence_file": "/verif/evidence/%s.json" % pid,
                "replay_cmd_template": "./check %s --replay {path}" % pid,
                "engine": "mtfacts+rules",
                "level_claimed": {"category": cat, "text": text, "design_ref": ref},
                "level_note": TRUST,
                "technique": tech,
            })
    na = []
    for pid in props:
        if pid in CHECKS:
            continue
        na.append({"property_id": pid, "reason": NA.get(pid) or PENDING.get(pid) or
                   "check not built yet in this revision of /verif (planned: see DESIGN.md §4)"})
    m = {
        "version": 1,
        "setup_cmd": "cd /verif/driver && CARGO_NET_OFFLINE=true cargo build --release --offline && cd /verif && ./check C12 --tier quick --no-evidence >/dev/null 2>&1; true",
        "hooks": {
            "guard": "swiftmt_verif",
            "enable": "none needed: the checks execute nothing of the repository; no source line uses the guard",
            "baseline_off_cmd": "cd /repo && cargo test --workspace --no-fail-fast --offline",
            "source_commits": [],
            "add_only": True,
        },
        "engines": [
            {"name": "mtfacts", "path": "driver/", "serves_properties": sorted(CHECKS),
             "kind_free_text": "rustc_private compiler driver (RUSTC_WORKSPACE_WRAPPER under cargo +nightly check): dumps items, resolved HIR shape trees of all bodies incl. derive output, MIR CFG skeletons with resolved callees"},
            {"name": "rules", "path": "rules/", "serves_properties": sorted(CHECKS),
             "kind_free_text": "python3 (stdlib) rule layer: repository-specific static rules over the fact file; known_findings.json keyed by call site"},
        ],
        "checks": checks,
        "not_applicable": na,
        "notes": "Static-analysis family only. Known genuine defects of the pinned tree are listed in known_findings.json (keyed rule|function|instance|ordinal) and printed as KNOWN-FINDING lines.",
    }
    json.dump(m, open(os.path.join(HERE, "MANIFEST.json"), "w"), indent=1)
    print("wrote MANIFEST.json with", len(checks), "checks,", len(na), "not_applicable")

main()
