#!/usr/bin/env python3
"""Writes /verif/MANIFEST.json from the table below (maintainer tool)."""
import json, os
HERE = os.path.dirname(os.path.dirname(os.path.abspath(__file__)))

TRUST = ("Trusted base: rustc nightly front end (name resolution, type check, MIR construction); the mtfacts "
         "extractor (driver/) and the rule layer (rules/*.py). Decides the named structural necessary "
         "conditions on the current source, for all inputs at once; it does not decide value-level "
         "equality (see DESIGN.md §4 'not decided').")

CHECKS = {
 "C01": ("other", "Structural necessary conditions of a drop-free parser decided on every path of all 30 parse_from_block4 and all 337 parse call sites: G1 end-of-input check dominates Ok, G2 anchored extraction, G3 no discarded parse error, G4 every parsed field written back (incl. conditionally built sub-structs), G7 option letters detectable, G8 loop progress / exit on error, G9 repetition in duplicate mode, G12 repetition guards (marker sets) = reference, U3/U4 field parsers do not cut their content (fixed slices without an upper length test, take(n) / capped loops without a rejection), U6/U7 accept conditions and delivered values of the MessageParser primitives and of the private parse helpers of message types = reviewed reference (only differences expressible in resolved vocabulary are reported; others are listed as undecided). Value equality up to canonical formatting is not decided.", "§4 C01, §7",
         "must-pass-through, error-discipline and may-flow analysis over the resolved HIR (rustc_private driver) + formula equivalence against a reference"),
 "C02": ("translation_validation", "Parser <-> serialiser sibling comparison for 30 message types (G4 order, G5 tag, G6 kind) and 114 field types (CU component usage), header parse vs Display (H1 tags, H3 components), assembly (H2) and line endings (LE) read from the emission templates, amount rendering vs accepted input (N2, N3), U7 stored components and E1 emission templates of fields, headers and assembly = reviewed reference (semantic template equality). Equality of re-parsed values is not decided.", "§4 C02, §7",
         "translation validation between sibling functions (may-flow grammar extraction + append walk) over resolved HIR"),
 "C03": ("translation_validation", "The library's model is the layout: model <-> parser <-> serialiser kinds and order (G4, G6), option coverage (G7), exact option dispatch (O1), marker-keyed loops (G8), duplicate mode (G9), sibling and reference layouts and repetition guards (G10, G11, G12), co-occurring options (CO), drop-free conditions (G1-G3), field-level accept / store / emit references (U6, U7, E1). No external layout table.", "§4 C03, §7",
         "translation validation model/parser/serialiser + finite evaluation of option dispatch"),
 "C04": ("other", "V1 rule wiring and per-type rule counts, V2 documented error code = emitted code literal, V3 code tables = reviewed reference (set or sequence semantics by use), V4 path condition of every error site logically equivalent (truth table) to the reviewed reference formula, V4s sibling implementations of one rule equivalent, U6/U7 the value helpers the rules call (codes extracted from a narrative, currency getters) = reference; small helpers and option getters are inlined; a difference confined to unresolved terms is undecided, not reported.", "§4 C04, §7.3",
         "path-condition extraction to boolean formulas over canonical atoms + truth-table equivalence; doc/body contradiction rule"),
 "C05": ("other", "U1 ASCII-only character predicates in the call-graph closure of all parsers, U3 two-sided length for fixed-offset parsers, U4 no silent truncation (take(n) and capped loops), T2 validated date components, U6/U7 accept condition and stored components of each of the 114 field parsers and the utility validators equivalent to the reviewed reference (three-valued comparison: only definite differences are reported). The full iff over all strings is not decided.", "§4 C05, §7.3",
         "reachability + predicate census + accept-formula equivalence over resolved HIR"),
 "C06": ("other", "N1 single text->f64 conversion site dominated by a digits-and-separator shape test, N2 currency-aware rendering and decimal check per amount type, N3 precision pairing for currency-less types, U6/U7/E1 accept conditions, stored values and emission templates of the amount validators and amount field types = reference. Floating-point exactness is not decided.", "§4 C06",
         "who-may-call + dominance + sibling pairing + accept-formula equivalence"),
 "C07": ("other", "Panic ledger over ~890 reachable functions: P1 explicit panics, P2 333 string-slice sites incl. get(range).unwrap() and split_at (char boundary + constant-bound length guard), P2b end bound `t + c` dominated by a length test, P7 no character count (chars().enumerate / position / count, also through crate functions returning one) reaches a byte-offset bound, P3 unwrap/expect sites, P4 constant and guard-related non-constant vector indices, P5 every recursion cycle reviewed, P6 loop progress (every path back to a while condition touches what it reads), G8 sequence loops consume or leave. Run time and relational byte offsets of string slices are not decided.", "§4 C07, §7",
         "path-sensitive abstract interpretation (length lower bounds, ASCII-ness, boundary positions, callee summaries) over structured HIR"),
 "C08": ("translation_validation", "JSON surface read from the generated serde code: J1 key uniqueness incl. flattened enums, J2 serialiser keys = deserialiser key table and hand-written key/value provenance, J4 untagged distinguishability, J5 skip symmetry and omission predicate, J6 ordered containers, J7 custom codec symmetry (serialize_with / with on both sides), J8 the publish cleaner selects by nullness / emptiness only, T3 date codec symmetry, T4 no hand-written range guard cuts into a clock / calendar component's range, D1 plugin tables, N1 finite numbers. Value equality after the JSON round trip is not decided.", "§4 C08",
         "extraction of key tables from derive-expanded HIR + set comparison + def-use tracing"),
 "C09": ("other", "G6 mandatory model field <-> mandatory step with that tag, D1 parser type literal = message_type(), G2 anchored extraction, G3 no discarded error, EP error payload dataflow on the MessageParser constructor sites (through constructor helpers), MO minimum-occurrence checks at their loop depth (followed into per-repetition helpers), G1 unexpected trailing field reported, U6/U7 accept conditions and delivered values of the MessageParser primitives = reference, U8 per primitive and ParseError variant the condition under which it is returned = reference, G11 step order = reference layout, G12 repetition guards = reference. Which error wins is not decided.", "§4 C09",
         "kind agreement + def-use tracing of error payloads + formula equivalence"),
 "C10": ("other", "H1 block-3/5 tag sets parse vs Display, H3 stored components written or derived + I/O direction dispatch, H4 emission order follows parse offsets, H5 each header parser is fed from the block with its own index, H2 assembly order and sources (from the emission template), U3 over-long header rejected, U6/U7/E1 accept conditions, stored components (incl. field assignments) and emission templates of header parsers, extract_block and the assembly = reference. Independence of block location from value characters is not decided in general.", "§4 C10",
         "literal-set / offset-order comparison of sibling functions + formula equivalence"),
 "C11": ("other", "T1 single century rule (who-may-call on chrono date constructors, census of century arithmetic, pivot), T2 validator reachability and rendering pattern per date/time-bearing field type, T3 JSON date codec symmetry, T4 hand-written range guards on values handed to chrono constructors do not reject values inside the component's range, U6/U7/E1 accept conditions, stored values and emission templates of date/time validators and fields = reference. Reduces the 10^6-string claim to parse_date_yymmdd + chrono, which are read, not proved.", "§4 C11",
         "who-may-call / must-call analysis, literal census and formula equivalence"),
 "C12": ("translation_validation", "All seven 30-way dispatch tables compared cell by cell with the 30 impl SwiftMessageBody (key literal, variant, generic arguments, callee, receiver type, returned literal): bijection, wildcard = unsupported error, wrapper enum accessors and serde tags, a guarded catch-all arm is a finding, T03 mismatch test dominates the typed block-4 parse, U6 the block locator (extract_block) = reference, D2 every consumer of a whole-message parse records an error on every path of its Err arm, S3 the validation adapters give one verdict.", "§4 C12",
         "table extraction from resolved HIR match arms + bijection / equality check"),
 "C13": ("other", "S1 stop-flag discipline on every flag use in 30 validate_network_rules (+ callees receiving the flag), S2 purity / determinism of the MIR call-graph closure of validation, S3 adapters call (false), keep all errors (the plugin neither prunes nor reorders its list), every exit of SwiftMessage::validate is built from that list with validity = is_empty(), S4 the accumulated list is append-only (no reorder / prune / mutable loan / re-assignment after the first append).", "§4 C13",
         "control-dependence + effect analysis over HIR and the MIR call graph"),
 "C14": ("other", "O1 finite static evaluation of parse_with_variant on 28 argument classes per option enum, O2 heuristic returns the variant whose parser it ran, O3 call sites pass the detected letter and call no letterless parser, G5 emitted tag per variant, G7 detector coverage, G11/type the option enum standing at each message position = reference, U6/U7/E1 of the option enums and U6 of their variant payload parsers = reference. Stability for ambiguous contents is not decided.", "§4 C14",
         "finite-domain evaluation of match arms + def-use tracing over resolved HIR"),
 "C16": ("other", "K1 unmasked stamp, K2 collision-free tag normalisation on all used tags, K3 tracker never un-consumes, K4 exactly one push per path of the distribution loop, K5 tracker key agreement, K6 the ordering key of option-letter candidates consults the consumed set, U6/U7 accept conditions and delivered collections (every push / clear / retain / sort with its condition) of tokeniser, tracker and sequence splitting = reference. Tokeniser exactness on arbitrary text is not decided.", "§4 C16",
         "expression-shape, table evaluation, path enumeration and formula equivalence"),
 "C17": ("other", "R1 code-word literal sets disjoint per type and equal across MT103/202/205 + message-level dispatch set, R2 method-selection chains of the 30 plugin arms (predicate -> method, priority, sibling block-3 tests), R3 every narrative a predicate reads is traversed completely (no positional selection), U6 truth conditions of all classification predicates = reference, U7 the block-3 values the classification reads reach the model as written.", "§4 C17",
         "sibling cross-check of literals and if-chains + formula equivalence"),
}

NA = {
 "C15": "quantifies over random draws of the external datafake-rs generators interpreted at run time; no sound static argument in reach bounds what those generators emit (DESIGN.md §4 C15)",
}
PENDING = {}

def main():
    props = [json.loads(l)["id"] for l in open(os.path.join(HERE, "properties.jsonl"))]
    checks = []
    for pid in props:
        if pid in CHECKS:
            cat, text, ref, tech = CHECKS[pid]
            checks.append({
                "property_id": pid,
                "quick_cmd": "./check %s --tier quick" % pid,
                "thorough_cmd": "./check %s --tier thorough" % pid,
                "evidence_file": "/verif/evidence/%s.json" % pid,
                "replay_cmd_template": "./check %s --replay {path}" % pid,
                "engine": "mtfacts+rules",
                "level_claimed": {"category": cat, "text": text, "design_ref": ref},
                "level_note": TRUST,
                "technique": tech,
            })
    na = []
    for pid in props:
        if pid in CHECKS:
            continue
        na.append({"property_id": pid, "reason": NA.get(pid) or PENDING.get(pid) or
                   "check not built yet in this revision of /verif (planned: see DESIGN.md §4)"})
    m = {
        "version": 1,
        "setup_cmd": "cd /verif/driver && CARGO_NET_OFFLINE=true cargo build --release --offline && cd /verif && ./check C12 --tier quick --no-evidence >/dev/null 2>&1; true",
        "hooks": {
            "guard": "swiftmt_verif",
            "enable": "none needed: the checks execute nothing of the repository; no source line uses the guard",
            "baseline_off_cmd": "cd /repo && cargo test --workspace --no-fail-fast --offline",
            "source_commits": [],
            "add_only": True,
        },
        "engines": [
            {"name": "mtfacts", "path": "driver/", "serves_properties": sorted(CHECKS),
             "kind_free_text": "rustc_private compiler driver (RUSTC_WORKSPACE_WRAPPER under cargo +nightly check): dumps items, resolved HIR shape trees of all bodies incl. derive output, MIR CFG skeletons with resolved callees"},
            {"name": "rules", "path": "rules/", "serves_properties": sorted(CHECKS),
             "kind_free_text": "python3 (stdlib) rule layer: repository-specific static rules over the fact file; known_findings.json keyed by call site"},
        ],
        "checks": checks,
        "not_applicable": na,
        "notes": "Static-analysis family only. Known genuine defects of the pinned tree are listed in known_findings.json (keyed rule|function|instance|ordinal) and printed as KNOWN-FINDING lines.",
    }
    json.dump(m, open(os.path.join(HERE, "MANIFEST.json"), "w"), indent=1)
    print("wrote MANIFEST.json with", len(checks), "checks,", len(na), "not_applicable")

main()
