#!/bin/bash
# maintainer: full corpus run -> /tmp/corpus.log ; prints seeds not caught by their own property and benign patches that alarm
cd "$(dirname "$0")/.."
./tools/reseed.py > /tmp/corpus_seeds.log 2>&1
python3 - <<'P'
import json,glob,os
miss=[]
for d in sorted(glob.glob('seeded/*')):
    m=json.load(open(d+'/meta.json'))
    if m['property'] not in m['detected_by']: miss.append((os.path.basename(d),m['detected_by']))
print("SEEDS not caught by own property:", miss)
P
for f in selftest/benign/*.diff; do r=$(./tools/runpatch.py $f 2>&1 | grep "DETECTED BY"); case "$r" in *"(none)"*) ;; *) echo "BENIGN ALARM $(basename $f) $r";; esac; done
echo CORPUS-DONE
