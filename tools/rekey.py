#!/usr/bin/env python3
"""Maintainer tool: after a change of the canonical expression rendering, rewrite the keys of known_findings.json
and exceptions.json. The same tree is analysed twice (old naming via VERIF_OLDNAMES=1 in a subprocess, new naming
here); findings are paired per rule in emission order (same nodes, same order), which gives old key -> new key."""
import json, os, subprocess, sys
HERE = os.path.dirname(os.path.dirname(os.path.abspath(__file__)))
sys.path.insert(0, HERE)
RULES = set(sys.argv[1].split(",")) if len(sys.argv) > 1 else {"P1", "P2", "P3", "P4", "K1"}
PROPS = ["C07", "C16"]

def collect():
    import importlib.machinery, importlib.util
    loader = importlib.machinery.SourceFileLoader("chk", os.path.join(HERE, "check"))
    spec_ = importlib.util.spec_from_loader("chk", loader); chk = importlib.util.module_from_spec(spec_); loader.exec_module(chk)
    from rules.facts import Facts
    import importlib
    fp, _, _ = chk.ensure_facts("/repo")
    out = {}
    for p in PROPS:
        F = Facts(fp); F.repo = "/repo"
        mod = importlib.import_module("rules." + p.lower())
        rep = mod.run(F, "quick")
        out[p] = [(f.rule, f.fn, f.key) for f in rep.findings if f.rule in RULES]
    return out

if os.environ.get("REKEY_CHILD"):
    print("@@" + json.dumps(collect()))
    sys.exit(0)
env = dict(os.environ, VERIF_OLDNAMES="1", REKEY_CHILD="1")
r = subprocess.run([sys.executable, __file__] + sys.argv[1:], env=env, capture_output=True, text=True)
line = [l for l in r.stdout.splitlines() if l.startswith("@@")]
assert line, r.stdout[-2000:] + r.stderr[-2000:]
old = json.loads(line[0][2:])
new = collect()
mapping = {}
for p in PROPS:
    byr_o, byr_n = {}, {}
    for r_, fn, k in old[p]:
        byr_o.setdefault((r_, fn), []).append(k)
    for r_, fn, k in new[p]:
        byr_n.setdefault((r_, fn), []).append(k)
    for rf in byr_o:
        a, b = byr_o[rf], byr_n.get(rf, [])
        if len(a) != len(b):
            print("MISMATCH", p, rf, len(a), len(b))
            continue
        for x, y in zip(a, b):
            if x in mapping and mapping[x] != y:
                print("CONFLICT", x, mapping[x], y)
            mapping[x] = y
print("mapped", len(mapping), "changed", sum(1 for k, v in mapping.items() if k != v))
kf = json.load(open(os.path.join(HERE, "known_findings.json")))
n = 0
for f in kf["findings"]:
    if f["key"] in mapping and mapping[f["key"]] != f["key"]:
        f["key"] = mapping[f["key"]]; n += 1
json.dump(kf, open(os.path.join(HERE, "known_findings.json"), "w"), indent=1)
ex = json.load(open(os.path.join(HERE, "exceptions.json")))
m = 0
def rk(o):
    global m
    if isinstance(o, dict):
        for k in list(o):
            if isinstance(o[k], str) and o[k] in mapping and mapping[o[k]] != o[k]:
                o[k] = mapping[o[k]]; m += 1
            else:
                rk(o[k])
            if k in mapping and mapping[k] != k:
                o[mapping[k]] = o.pop(k); m += 1
    elif isinstance(o, list):
        for i, x in enumerate(o):
            if isinstance(x, str) and x in mapping and mapping[x] != x:
                o[i] = mapping[x]; m += 1
            else:
                rk(x)
rk(ex)
json.dump(ex, open(os.path.join(HERE, "exceptions.json"), "w"), indent=1)
print("rewrote", n, "known keys,", m, "exception keys")
