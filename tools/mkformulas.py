#!/usr/bin/env python3
"""Maintainer tool: write spec/rule_formulas.json from the current tree (to be REVIEWED against the rule texts
before committing; the check never writes this file)."""
import glob, json, os, sys
HERE = os.path.dirname(os.path.dirname(os.path.abspath(__file__)))
sys.path.insert(0, HERE)
from rules.facts import Facts
from rules import grules, guards
fp = sorted(glob.glob(os.path.join(HERE, ".cache", "facts-*.json")), key=os.path.getmtime)[-1]
F = Facts(fp)
tms, ft = grules.models(F)
out = {}
n = 0
for tm in tms:
    d = {}
    for s in guards.extract_type(F, tm):
        d.setdefault(s["code"] or "?", []).append({"f": guards.to_json(s["f"]), "show": guards.show(s["f"]),
                                                   "fn": s["fn"].rsplit("::", 1)[-1]})
        n += 1
    if d:
        out[tm.name] = d
os.makedirs(os.path.join(HERE, "spec"), exist_ok=True)
json.dump({"comment": "reference guard formulas per (type, code); reviewed against the rule texts in the doc "
                      "comments of the rule functions; compared by logical equivalence only", "types": out},
          open(os.path.join(HERE, "spec", "rule_formulas.json"), "w"), indent=1)
print("wrote", n, "formulas")
