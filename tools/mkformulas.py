#!/usr/bin/env python3
"""Maintainer tool: write spec/rule_formulas.json from the current tree (to be REVIEWED against the rule texts
before committing; the check never writes this file)."""
import glob, json, os, sys, subprocess
HERE = os.path.dirname(os.path.dirname(os.path.abspath(__file__)))
sys.path.insert(0, HERE)
from rules.facts import Facts
from rules import grules, guards
import importlib.machinery, importlib.util
loader = importlib.machinery.SourceFileLoader("chk", os.path.join(HERE, "check"))
spec_ = importlib.util.spec_from_loader("chk", loader); chk = importlib.util.module_from_spec(spec_); loader.exec_module(chk)
assert subprocess.run(["git", "-C", "/repo", "status", "--porcelain", "--", "src"], capture_output=True, text=True).stdout.strip() == "", "/repo/src is modified"
fp, fresh, secs = chk.ensure_facts("/repo")
F = Facts(fp)
tms, ft = grules.models(F)
out = {}
n = 0
for tm in tms:
    d = {}
    for s in guards.extract_type(F, tm):
        d.setdefault(s["code"] or "?", []).append({"f": guards.to_json(s["f"]), "show": guards.show(s["f"]),
                                                   "fn": s["fn"].rsplit("::", 1)[-1]})
        n += 1
    if d:
        out[tm.name] = d
os.makedirs(os.path.join(HERE, "spec"), exist_ok=True)
json.dump({"comment": "reference guard formulas per (type, code); reviewed against the rule texts in the doc "
                      "comments of the rule functions; compared by logical equivalence only", "types": out},
          open(os.path.join(HERE, "spec", "rule_formulas.json"), "w"), indent=1)
print("wrote", n, "formulas")

from rules import v4
tabs = v4.current_tables(F)
json.dump({"comment": "reference code tables of the message types, reviewed against the SR2025 rule texts quoted in "
                      "the repository (T47/T48/T36 code lists, D67 combinations, D98 order)",
           "tables": {k: {"ordered": v["ordered"], "value": v["value"]} for k, v in sorted(tabs.items())}},
          open(os.path.join(HERE, "spec", "code_tables.json"), "w"), indent=1)
print("wrote", len(tabs), "tables")

from rules import accept
acc = accept.extract_all(F)
json.dump({"comment": "reference accept conditions (function returns Ok) of field parsers, utility validators and "
                      "header parsers on the pinned tree; compared by logical equivalence only. Known defects of the "
                      "pinned tree (see known_findings.json) are part of this reference: U6 detects changes of an "
                      "accept condition, the other rules judge the condition itself.",
           "functions": {p: {"f": guards.to_json(f), "show": guards.show(f)[:3000]} for p, (f, b) in sorted(acc.items())}},
          open(os.path.join(HERE, "spec", "accept_formulas.json"), "w"), indent=1)
print("wrote", len(acc), "accept formulas")

rj = accept.extract_rejects(F)
json.dump({"comment": "reference: per MessageParser primitive and ParseError variant the condition under which it is returned",
           "functions": {p: {nm: {"f": guards.to_json(f), "show": guards.show(f)[:1500]} for nm, f in sorted(by.items())}
                         for p, (by, b) in sorted(rj.items())}},
          open(os.path.join(HERE, "spec", "reject_formulas.json"), "w"), indent=1)
print("wrote reject formulas of", len(rj), "functions")

st = accept.extract_stores(F)
json.dump({"comment": "reference of what each accepting exit of a parser delivers (component = expression over the input)",
           "functions": {p: sig for p, (sig, b) in sorted(st.items())}},
          open(os.path.join(HERE, "spec", "store_maps.json"), "w"), indent=1)
print("wrote", len(st), "store maps")

from rules import emit
em = emit.extract_all(F)
json.dump({"comment": "reference emission templates of the serialisers (see rules/emit.py)",
           "functions": {p: {"t": t, "show": emit.render(t)[:2000]} for p, (t, b) in sorted(em.items())}},
          open(os.path.join(HERE, "spec", "emit_templates.json"), "w"), indent=1)
print("wrote", len(em), "emission templates")

lay = grules.layouts(tms)
json.dump({"comment": "reference layouts: per model struct the (tag, kind) sequence the parser reads; reviewed against "
                      "the message documentation in the repository",
           "structs": {k: [[t, kk] for t, kk, ty in v] for k, v in sorted(lay.items())},
           "types": {k: [ty for t, kk, ty in v] for k, v in sorted(lay.items())},
           "loops": grules.loop_guards(tms)},
          open(os.path.join(HERE, "spec", "layouts.json"), "w"), indent=1)
print("wrote", len(lay), "layouts")

from rules.facts import units
import hashlib
U = {}
for b in F.bodies:
    if "body" in b and not b.get("exp") and b["kind"] in ("Fn", "AssocFn"):
        U[b["path"]] = [hashlib.sha1(u.encode()).hexdigest()[:10] for u in units(b["body"])]
json.dump({"_comment": "per function: hashes of its simple statements / conditions / loop headers / results on the reviewed "
                       "tree; used to measure how much of a function was rewritten",
           "functions": U}, open(os.path.join(HERE, "spec", "units.json"), "w"), indent=0, sort_keys=True)
print("wrote unit fingerprints of", len(U), "functions")
