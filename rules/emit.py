"""A10 / E1: emission templates — what text a serialiser builds, as a canonical tree of literals, rendered values
(with their format spec), conditionals and loops, obtained by symbolic evaluation of the string-building code
(format!/write!/push_str/push/String::from/+=, spliced through local variables).  Compared with a reviewed
reference by equality of the canonical tree: `format!` vs `push_str` style, helper locals and statement grouping
do not matter; a dropped separator, a changed precision or padding, a swapped or wrongly guarded component do."""
import json
import os
import re
from .common import Finding
from . import decide
from .facts import walk, lit_val, callee
from . import guards
from .guards import TRUE, f_not
from .accept import AcceptExtract, peel, guards_walk_binds

SPEC = os.path.join(os.path.dirname(os.path.dirname(os.path.abspath(__file__))), "spec", "emit_templates.json")


def is_string_ty(t):
    t = (t or "").replace("&mut ", "").replace("&", "").strip()
    return t in ("std::string::String", "str")


class EmitExtract(AcceptExtract):
    def __init__(self, F, body):
        super().__init__(F, body)
        self.builders = {}     # local id -> list of items
        self.out = []          # items written to the formatter `f` (Display::fmt)
        self.fmt_id = None
        self.result = None

    # ---- items -----------------------------------------------------------------------------
    def lit(self, s):
        return ["lit", s]

    def sval(self, e, env):
        """symbolic string value of expression e: list of items"""
        x = e
        while isinstance(x, dict) and x.get("k") in ("ref",):
            x = x["e"]
        while isinstance(x, dict) and x.get("k") == "block" and not x.get("stmts") and x.get("expr") is not None:
            x = x["expr"]
        if not isinstance(x, dict):
            return [["val", "?", ""]]
        k = x.get("k")
        if k == "lit" and x.get("t") in ("str", "char"):
            return [self.lit(x["v"])]
        if k == "fmt":
            return self.fmt_items(x, env)
        if k == "local":
            if x["id"] in self.builders:
                return list(self.builders[x["id"]])
            return [["val", self.value_text(x, env), ""]]
        if k == "call":
            f = x.get("f") or ""
            if f.endswith(("String::from", "From::from", "ToString::to_string", "ToOwned::to_owned")) and x.get("args"):
                return self.sval(x["args"][0], env)
            if f.endswith("String::new") or f.endswith("String::with_capacity"):
                return []
        if k == "mcall":
            m = x.get("m")
            if m in ("to_string", "clone", "to_owned", "as_str", "into", "as_ref", "borrow") and not x.get("args"):
                inner = peel(x["recv"])
                rt = x.get("rt") or ""
                if is_string_ty(rt) or (isinstance(inner, dict) and inner.get("k") in ("lit", "fmt")) or \
                        (isinstance(inner, dict) and inner.get("k") == "local" and inner["id"] in self.builders):
                    return self.sval(x["recv"], env)
            if m in ("replace", "trim", "trim_end", "trim_start", "to_uppercase", "to_lowercase", "trim_end_matches",
                     "trim_start_matches", "replacen") and is_string_ty(x.get("rt")):
                args = ",".join(self.value_text(a, env) for a in x.get("args") or [])
                return [["xform", "%s(%s)" % (m, args), self.sval(x["recv"], env)]]
            rv_ = x.get("recv")
            while isinstance(rv_, dict) and rv_.get("k") == "ref":
                rv_ = rv_["e"]
            if m in ("concat", "join") and isinstance(rv_, dict) and rv_.get("k") == "array":
                # [a, b].concat() / [a, b].join("sep"): the parts one after the other
                sep = None
                if m == "join":
                    sep = lit_val(peel(x["args"][0])) if x.get("args") else ""
                if m == "concat" or isinstance(sep, str):
                    out = []
                    for i_, e_ in enumerate(rv_.get("es") or []):
                        if i_ and sep:
                            out.append(self.lit(sep))
                        out.extend(self.sval(e_, env))
                    return out
            if m == "join" and x.get("args"):
                return [["join", self.value_text(x["args"][0], env), self.value_text(x["recv"], env)]]
        if k == "if":
            c = self.cond(x["cond"], env)
            e1, e2 = dict(env), dict(env)
            t = self.sval_block(x["then"], e1)
            el = self.sval_block(x["else"], e2) if x.get("else") is not None else []
            return [self.mk_if(c, t, el)]
        if k == "match":
            arms = x.get("arms") or []
            # match opt { Some(v) => A, None => B } is if let Some(v) = opt { A } else { B }
            if len(arms) == 2:
                def pk(a_):
                    p_ = a_.get("pat") or {}
                    while p_.get("k") == "pref":
                        p_ = p_.get("pat") or {}
                    return (p_.get("path") or "").rsplit("::", 1)[-1] if p_.get("k") in ("pts", "ppath") else ("_" if p_.get("k") == "_" else "")
                kinds = [pk(a_) for a_ in arms]
                if "Some" in kinds and (("None" in kinds) or ("_" in kinds)):
                    si = kinds.index("Some")
                    e1, e2 = dict(env), dict(env)
                    c_ = self.cond({"k": "letx", "pat": arms[si]["pat"], "init": x["e"]}, e1)
                    t_ = self.sval_block(arms[si]["body"], e1)
                    el_ = self.sval_block(arms[1 - si]["body"], e2)
                    return [self.mk_if(c_, t_, el_)]
            items = []
            negs = TRUE
            chain = None
            out = []
            for arm in arms:
                ea = dict(env)
                pc = self.pat_cond(arm["pat"], x["e"], ea)
                out.append((guards.f_and(negs, pc), self.sval_block(arm["body"], ea)))
                negs = guards.f_and(negs, f_not(pc))
            return [["match", [[guards.canon(c) if len(guards.atoms_of(c)) <= 10 else guards.show(c), it] for c, it in out]]]
        if k == "block":
            return self.sval_block(x, env)
        return [["val", self.value_text(x, env), ""]]

    def sval_block(self, b, env):
        if b is None:
            return []
        if b.get("k") != "block":
            return self.sval(b, env)
        # a block whose value is a string built inside it
        saved = dict(self.builders)
        for s in b.get("stmts") or []:
            self.stmt(s, env)
        r = self.sval(b["expr"], env) if b.get("expr") is not None else []
        self.builders = saved
        return r

    def mk_if(self, c, t, e):
        cc = guards.canon(c) if len(guards.atoms_of(c)) <= 10 else guards.show(c)
        nc = guards.canon(f_not(c)) if len(guards.atoms_of(c)) <= 10 else guards.show(f_not(c))
        if nc < cc:
            return ["if", nc, e, t]
        return ["if", cc, t, e]

    def fmt_items(self, n, env):
        out = []
        args = n.get("args") or []
        for p in n.get("pieces") or []:
            if isinstance(p, str):
                out.append(self.lit(p))
            else:
                spec = ""
                if p.get("prec") is not None:
                    spec += ".%s" % p["prec"]
                if p.get("width") is not None:
                    spec += "w%s" % p["width"]
                if p.get("flags") is not None:
                    fl = p["flags"]
                    fill = chr(fl & 0x1FFFFF)
                    align = (fl >> 29) & 3
                    if fill != " " or align != 3 or p.get("zero"):
                        spec += "f%s%s%s" % (fill, "<>^ "[align], "0" if p.get("zero") else "")
                if (p.get("trait") or "") not in ("new_display", ""):
                    spec += ":" + (p.get("trait") or "")
                a = args[p["arg"]] if p.get("arg") is not None and p["arg"] < len(args) else None
                if a is None:
                    out.append(["val", "?", spec])
                    continue
                inner = self.sval(a, env)
                if spec == "" and not (len(inner) == 1 and inner[0][0] == "val"):
                    out += inner            # a string spliced without formatting
                elif len(inner) == 1 and inner[0][0] == "val":
                    out.append(["val", inner[0][1], spec or inner[0][2]])
                else:
                    out.append(["fmtd", spec, inner])
        return out

    # ---- statements ------------------------------------------------------------------------------
    def append(self, bid, items):
        self.builders.setdefault(bid, [])
        self.builders[bid] = self.builders[bid] + items

    def stmt(self, s, env):
        k = s.get("k")
        if k == "let":
            init = s.get("init")
            pat = s["pat"]
            if init is not None and pat.get("k") == "bind" and (is_string_ty(s.get("ty")) or
                                                                (isinstance(peel(init), dict) and peel(init).get("k") == "fmt")):
                self.builders[pat["id"]] = self.sval(init, env)
                env[pat["id"]] = ("text", "$" + pat["name"])
                return
            self.do_let(s, env)
            return
        if k == "assign":
            l = peel(s["l"])
            if isinstance(l, dict) and l.get("k") == "local" and (l["id"] in self.builders):
                self.builders[l["id"]] = self.sval(s["r"], env)
                return
            if isinstance(l, dict) and l.get("k") == "local":
                env[l["id"]] = ("text", self.value_text(s["r"], env))
            return
        if k == "assignop" and s.get("op") == "+=":
            l = peel(s["l"])
            if isinstance(l, dict) and l.get("k") == "local" and l["id"] in self.builders:
                self.append(l["id"], self.sval(s["r"], env))
            return
        if k == "mcall":
            m = s.get("m")
            rv = peel(s.get("recv"))
            bid = rv["id"] if isinstance(rv, dict) and rv.get("k") == "local" else None
            if m in ("push_str", "push") and bid is not None and (bid in self.builders or bid in self.params_str):
                self.append(bid, self.sval((s.get("args") or [None])[0], env))
                return
            if m == "write_fmt" and bid is not None and bid == self.fmt_id:
                self.out += self.sval((s.get("args") or [None])[0], env)
                return
            if m == "write_str" and bid == self.fmt_id:
                self.out += self.sval((s.get("args") or [None])[0], env)
                return
            if m in ("truncate", "pop", "clear", "insert_str", "insert") and bid is not None and bid in self.builders:
                self.append(bid, [["op", "%s(%s)" % (m, ",".join(self.value_text(a, env) for a in s.get("args") or []))]])
                return
        if k == "call":
            # helper that appends to a builder passed by &mut (append_field(&mut result, &self.x))
            args = s.get("args") or []
            if args:
                a0 = args[0]
                while isinstance(a0, dict) and a0.get("k") == "ref":
                    a0 = a0["e"]
                if isinstance(a0, dict) and a0.get("k") == "local" and (a0["id"] in self.builders or a0["id"] in self.params_str):
                    name = (s.get("f") or "?").rsplit("::", 1)[-1]
                    self.append(a0["id"], [["call", name, [self.value_text(a, env) for a in args[1:]]]])
                    return
        if k == "try":
            self.stmt(s["e"], env)
            return
        if k == "if":
            c = self.cond(s["cond"], env)
            self.branch_delta(c, s["then"], s.get("else"), env)
            return
        if k == "match":
            negs = TRUE
            for arm in s.get("arms") or []:
                ea = dict(env)
                pc = self.pat_cond(arm["pat"], s["e"], ea)
                self.branch_delta(guards.f_and(negs, pc), arm["body"], None, ea)
                negs = guards.f_and(negs, f_not(pc))
            return
        if k in ("for", "while", "loop"):
            e2 = dict(env)
            it = ""
            if k == "for":
                it = self.value_text(s["iter"], env)
                for j, q in enumerate(list(guards_walk_binds(s["pat"]))):
                    e2[q["id"]] = ("text", "@%d" % j)
            elif k == "while":
                it = guards.show(self.cond(s["cond"], e2))
            before = {b: len(v) for b, v in self.builders.items()}
            ob = len(self.out)
            self.run_block(s["body"], e2)
            for b, v in list(self.builders.items()):
                n0 = before.get(b, 0)
                if len(v) > n0:
                    self.builders[b] = v[:n0] + [["for", it, v[n0:]]]
            if len(self.out) > ob:
                self.out = self.out[:ob] + [["for", it, self.out[ob:]]]
            return
        if k == "block":
            self.run_block(s, env)
            return
        if k == "ret":
            if s.get("e") is not None:
                self.result = (self.result or []) + [["ret", self.sval(s["e"], env)]]
            return

    def branch_delta(self, c, then, els, env):
        before = {b: list(v) for b, v in self.builders.items()}
        ob = list(self.out)
        rb = self.result
        e1 = dict(env)
        self.run_block(then, e1)
        t_b = {b: v for b, v in self.builders.items()}
        t_out = self.out
        t_res = self.result
        self.builders = {b: list(v) for b, v in before.items()}
        self.out = list(ob)
        self.result = rb
        if els is not None:
            e2 = dict(env)
            self.run_block(els, e2)
        e_b = self.builders
        e_out = self.out
        e_res = self.result
        merged = {}
        for b in set(t_b) | set(e_b):
            base = before.get(b, [])
            tv = t_b.get(b, base)
            ev = e_b.get(b, base)
            n0 = len(base)
            if tv[:n0] != base or ev[:n0] != base:
                # the builder was re-assigned in a branch: whole value becomes conditional
                merged[b] = [self.mk_if(c, tv, ev)]
            elif len(tv) > n0 or len(ev) > n0:
                merged[b] = base + [self.mk_if(c, tv[n0:], ev[n0:])]
            else:
                merged[b] = base
        self.builders = merged
        n0 = len(ob)
        if len(t_out) > n0 or len(e_out) > n0:
            self.out = ob + [self.mk_if(c, t_out[n0:], e_out[n0:])]
        else:
            self.out = ob
        if t_res != rb or e_res != rb:
            self.result = (rb or []) + [self.mk_if(c, (t_res or [])[len(rb or []):], (e_res or [])[len(rb or []):])]

    def run_block(self, b, env):
        if b is None:
            return
        if b.get("k") != "block":
            self.stmt(b, env)
            return
        for s in b.get("stmts") or []:
            self.stmt(s, env)
        if b.get("expr") is not None:
            e = b["expr"]
            if e.get("k") in ("if", "match", "for", "while", "loop", "mcall", "call", "block", "ret", "assign", "assignop", "try"):
                self.stmt(e, env)

    def run_emit(self):
        b = self.body
        env = {}
        self.params_str = set()
        ins = b.get("inputs") or []
        for i, p in enumerate(b.get("params") or []):
            if p.get("k") == "bind":
                env[p["id"]] = ("place", p["name"])
                t = ins[i] if i < len(ins) else ""
                if "Formatter" in t:
                    self.fmt_id = p["id"]
                if t.startswith("&mut") and "String" in t:
                    self.params_str.add(p["id"])
                    self.builders[p["id"]] = []
        body = b["body"]
        out_ty = b.get("output") or ""
        if body.get("k") == "block":
            for s in body.get("stmts") or []:
                self.stmt(s, env)
            tail = body.get("expr")
        else:
            tail = body
        res = []
        if self.fmt_id is not None:
            if tail is not None:
                self.stmt(tail, env)
            res = self.out
        elif self.params_str:
            if tail is not None:
                self.stmt(tail, env)
            res = []
            for pid in sorted(self.params_str):
                res += self.builders.get(pid, [])
        else:
            if tail is not None:
                if tail.get("k") in ("if", "match") and not is_string_ty(out_ty):
                    self.stmt(tail, env)
                else:
                    res = self.sval(tail, env)
            if self.result:
                res = self.result + res
        return normalise(res)


def normalise(items):
    """merge adjacent literals, drop empty conditionals, recurse"""
    out = []
    for it in items:
        it = norm_item(it)
        if it is None:
            continue
        if it[0] == "lit" and out and out[-1][0] == "lit":
            out[-1] = ["lit", out[-1][1] + it[1]]
        else:
            out.append(it)
    return out


def norm_item(it):
    k = it[0]
    if k == "lit":
        return it if it[1] != "" else None
    if k == "if":
        t, e = normalise(it[2]), normalise(it[3])
        if not t and not e:
            return None
        if t == e:
            return ["seq", t]
        return ["if", it[1], t, e]
    if k == "for":
        b = normalise(it[2])
        return ["for", it[1], b] if b else None
    if k in ("xform", "fmtd"):
        return [k, it[1], normalise(it[2])]
    if k == "ret":
        return ["ret", normalise(it[1])]
    if k == "match":
        return ["match", [[c, normalise(x)] for c, x in it[1]]]
    return it


def targets(F):
    out = []
    for b in F.bodies:
        if "body" not in b or b.get("exp") or b["kind"] not in ("Fn", "AssocFn"):
            continue
        p = b["path"]
        t = b.get("impl_trait") or ""
        outp = b.get("output") or ""
        ins = " ".join(b.get("inputs") or [])
        if t.endswith("traits::SwiftField") and b["name"] == "to_swift_string":
            out.append(b)
        elif t.endswith("fmt::Display") and b["name"] == "fmt" and p.startswith(("<headers::", "headers::")):
            out.append(b)
        elif p == "swift_message::SwiftMessage::<T>::to_mt_message":
            out.append(b)
        elif outp == "std::string::String" and p.startswith(("fields::", "headers::")) and "f64" in ins:
            out.append(b)
        elif p.startswith("parser::utils::") and ("&mut std::string::String" in ins or outp == "std::string::String"):
            out.append(b)
    return out


def extract_all(F):
    res = {}
    for b in targets(F):
        ex = EmitExtract(F, b)
        try:
            res[b["path"]] = (ex.run_emit(), b)
        except RecursionError:
            continue
    return res


def render(items, depth=0):
    out = []
    for it in items:
        k = it[0]
        if k == "lit":
            out.append(json.dumps(it[1]))
        elif k == "val":
            out.append("{%s%s}" % (it[1], (":" + it[2]) if it[2] else ""))
        elif k == "if":
            out.append("IF[%s](%s)ELSE(%s)" % (it[1][:80], render(it[2], depth + 1), render(it[3], depth + 1)))
        elif k == "for":
            out.append("FOR[%s](%s)" % (it[1][:60], render(it[2], depth + 1)))
        elif k in ("xform", "fmtd"):
            out.append("%s[%s](%s)" % (k, it[1], render(it[2], depth + 1)))
        elif k == "match":
            out.append("MATCH(%s)" % " | ".join(render(x, depth + 1) for c, x in it[1]))
        else:
            out.append(json.dumps(it)[:120])
    return " ".join(out)


def _cond_atoms(c):
    """atoms and truth table of a canon() condition string; None when it is not in that form"""
    from .accept import _split_top
    head, sep, bits = c.rpartition(":")
    if not sep or not bits or set(bits) - set("01"):
        return None
    atoms = _split_top(head)
    if len(bits) != 2 ** len(atoms):
        return None
    return atoms, bits


def _eval_cond(c, val):
    p = _cond_atoms(c)
    if p is None:
        return val.get("RAW:" + c, False)
    atoms, bits = p
    idx = 0
    for a in atoms:
        idx = idx * 2 + (1 if val.get(a, False) else 0)
    return bits[idx] == "1"


def _all_atoms(items, out):
    for it in items or []:
        k = it[0]
        if k == "if":
            p = _cond_atoms(it[1])
            if p is None:
                out.add("RAW:" + it[1])
            else:
                out.update(p[0])
            _all_atoms(it[2], out)
            _all_atoms(it[3], out)
        elif k in ("for", "xform", "fmtd"):
            _all_atoms(it[2], out)
        elif k == "match":
            for c, x in it[1]:
                _all_atoms(x, out)


def _emit_seq(items, val, out):
    for it in items or []:
        k = it[0]
        if k == "lit":
            if out and out[-1][0] == "lit":
                out[-1] = ("lit", out[-1][1] + it[1])
            else:
                out.append(("lit", it[1]))
        elif k == "val":
            out.append(("val", it[1], it[2] or ""))
        elif k == "if":
            _emit_seq(it[2] if _eval_cond(it[1], val) else it[3], val, out)
        elif k == "for":
            inner = []
            _emit_seq(it[2], val, inner)
            out.append(("for", it[1], tuple(inner)))
        elif k in ("xform", "fmtd"):
            inner = []
            _emit_seq(it[2], val, inner)
            out.append((k, str(it[1]), tuple(inner)))
        elif k == "match":
            out.append(("match", tuple((str(c), json.dumps(x)) for c, x in it[1])))
        else:
            out.append(("?", json.dumps(it)[:200]))


def semantic_form(t, limit=12):
    """{assignment of the condition atoms -> emitted piece sequence}: two templates with equal forms write the same
    text under every combination of their conditions, however the ifs are nested or the literals are split"""
    atoms = set()
    _all_atoms(t, atoms)
    atoms = sorted(atoms)
    if len(atoms) > limit:
        return None
    form = {}
    import itertools
    for bits in itertools.product([False, True], repeat=len(atoms)):
        val = dict(zip(atoms, bits))
        seq = []
        _emit_seq(t, val, seq)
        form["".join("1" if b else "0" for b in bits)] = json.dumps(seq)
    return atoms, form


def same_text(t1, t2):
    a, b = semantic_form(t1), semantic_form(t2)
    if a is None or b is None:
        return False
    if a[0] == b[0]:
        return a[1] == b[1]
    # different atom sets: extend both to the union
    atoms = set(a[0]) | set(b[0])
    import itertools
    atoms = sorted(atoms)
    if len(atoms) > 12:
        return False
    for bits in itertools.product([False, True], repeat=len(atoms)):
        val = dict(zip(atoms, bits))
        s1, s2 = [], []
        _emit_seq(t1, val, s1)
        _emit_seq(t2, val, s2)
        if json.dumps(s1) != json.dumps(s2):
            return False
    return True


def _flat(items, out=None):
    """leaf pieces of a template as comparable strings"""
    out = out if out is not None else []
    for it in items or []:
        k = it[0]
        if k == "lit":
            out.append("L:" + it[1])
        elif k == "val":
            out.append("V:%s:%s" % (it[1], it[2] or ""))
        elif k == "if":
            out.append("C:" + it[1])
            _flat(it[2], out)
            _flat(it[3], out)
        elif k == "for":
            out.append("F:" + it[1])
            _flat(it[2], out)
        elif k in ("xform", "fmtd"):
            out.append("X:%s" % (it[1],))
            _flat(it[2], out)
        elif k == "match":
            for c, x in it[1]:
                out.append("M:%s" % (c,))
                _flat(x, out)
        else:
            out.append("?" + json.dumps(it)[:200])
    return out


_V = []


def _vocab(spec):
    if not _V:
        texts = []
        for p, v in spec.items():
            texts.append(p)
            texts.extend(x for x in _flat(v["t"]) if not x.startswith("L:"))
        _V.append(decide.vocabulary(texts))
    return _V[0]


def e1(rep, F, flt=None):
    r = rep.rule("E1", "emission template = reviewed reference: the text every serialiser builds (tag and separator "
                       "literals, the components it renders with their precision / padding, the conditions and loops "
                       "around them) equals the reference template; construction style (format!/write!/push_str, "
                       "helper locals) is irrelevant", floor=100)
    if not os.path.exists(SPEC):
        rep.fail_closed("E1: spec/emit_templates.json missing")
        return r
    spec = json.load(open(SPEC))["functions"]
    cur = extract_all(F)
    rx = {"fields": re.compile(r"^(<fields::|fields::)"), "headers": re.compile(r"headers::"),
          "assembly": re.compile(r"^swift_message::|^parser::utils::"),
          "amount": re.compile(r"amount|Field(19|32|33|34|36|37|60|61|62|64|65|71F|71G|90)"),
          "date": re.compile(r"Field(11|13|30|32|60|61|62|64|65)")}.get(flt)
    if flt:
        r["floor"] = {"fields": 100, "headers": 5, "assembly": 3, "amount": 20, "date": 12}.get(flt, 1)
    for path in sorted(set(spec) | set(cur)):
        if rx is not None and not rx.search(path):
            continue
        r["instances"] += 1
        if path not in cur or path not in spec:
            continue
        t, b = cur[path]
        if json.dumps(t) != json.dumps(spec[path]["t"]) and not same_text(t, spec[path]["t"]):
            # pieces that differ; a piece the extractor could not interpret (an unknown item kind, an unresolved
            # local, a helper the reference does not know) makes the comparison undecided, not a violation
            rw, who = decide.rewritten(F, path)
            if rw:
                r["undecided"] = r.get("undecided", 0) + 1
                rep.notes.append("E1: %s (%s) differs from the reviewed version in %d statements / conditions: "
                                 "restructured, comparison with the reference undecided" % (path, who, rw))
                continue
            fa, fb = set(_flat(t)), set(_flat(spec[path]["t"]))
            diff = (fa - fb) | (fb - fa)
            vocab = _vocab(spec)
            if any(not x.startswith("L:") and (x.startswith("?") or decide.opaque(x[2:], vocab)) for x in diff):
                r["undecided"] = r.get("undecided", 0) + 1
                rep.notes.append("E1: %s: template differs from the reference only in pieces the extractor cannot "
                                 "resolve: undecided, not reported" % path)
                continue
            rep.add(Finding("E1", path, "template-changed",
                            "%s now builds `%s`; the reference template is `%s`"
                            % (path, render(t)[:400], render(spec[path]["t"])[:400]), b["file"], b["line"]))
    return r
