"""A4 / J-rules: JSON surface read from the derived (and hand-written) serde implementations."""
import re
from .common import Finding
from .facts import walk, is_call, lit_val, peel, callee
from . import grammar as G


def _lits(n):
    return [x["v"] for x in walk(n) if x.get("k") == "lit" and x.get("t") == "str"]


class Surface:
    """per ADT: what the serialiser writes and what the deserialiser reads"""

    def __init__(self, F):
        self.F = F
        self.ser = {}     # type -> body
        self.de = {}      # type -> {"visit_str": body, "visit_map": body, "deserialize": body}
        for b in F.bodies:
            t = b.get("impl_trait") or ""
            st = b.get("impl_self")
            if not st or "body" not in b:
                continue
            if t.endswith("_serde::Serialize") and b["name"] == "serialize":
                self.ser[st] = b
            if t.endswith("_serde::Deserialize") and b["name"] == "deserialize":
                self.de.setdefault(st, {})["deserialize"] = b
        for b in F.bodies:
            pf = b.get("parent_fn")
            if not pf or "body" not in b:
                continue
            for st, d in self.de.items():
                if d["deserialize"]["path"] == pf:
                    if b["name"] in ("visit_str", "visit_map", "visit_seq", "visit_enum", "visit_bytes"):
                        owner = b.get("impl_self") or ""
                        kind = "field" if "__FieldVisitor" in owner else "main"
                        d.setdefault(b["name"] + ":" + kind, b)

    def struct_write(self, t):
        """[(key | None for flatten, field name, skip_if_none)] in order"""
        b = self.ser.get(t)
        if b is None:
            return None
        out = []

        def rec(n, skip):
            if isinstance(n, list):
                for x in n:
                    rec(x, skip)
                return
            if not isinstance(n, dict):
                return
            k = n.get("k")
            if k == "if":
                cond = n["cond"]
                sk = False
                for x in walk(cond):
                    if x.get("k") in ("call", "mcall") and (x.get("f") or ""):
                        nm = (x.get("f") or "")
                        if nm.endswith("Option::<T>::is_none"):
                            sk = sk or "is_none"
                        elif nm.endswith(("::is_empty", "is_default", "::is_zero")) or "is_" in nm.rsplit("::", 1)[-1]:
                            sk = sk or nm.rsplit("::", 2)[-2] + "::" + nm.rsplit("::", 1)[-1]
                rec(n["then"], skip or sk)
                rec(n.get("else"), skip)
                return
            if k in ("call", "mcall"):
                f = n.get("f") or ""
                if f.endswith("SerializeMap::serialize_entry") or f.endswith("SerializeStruct::serialize_field"):
                    a = n.get("args") or []
                    key = None
                    for x in a:
                        if isinstance(lit_val(x), str):
                            key = lit_val(x)
                            break
                    fld = None
                    for x in walk(a[-1] if a else None):
                        if x.get("k") == "field" and peel(x["e"]).get("name") == "self":
                            fld = x["name"]
                    out.append((key, fld, skip, n.get("ln")))
                    return
                if f.endswith("_serde::Serialize::serialize") and any(
                        "FlatMapSerializer" in (x.get("f") or "") for x in walk(n.get("args") or [])):
                    a = n.get("args") or []
                    fld = None
                    for x in walk(a[0] if a else None):
                        if x.get("k") == "field" and peel(x["e"]).get("name") == "self":
                            fld = x["name"]
                    out.append((None, fld, skip, n.get("ln")))
                    return
            for key, v in n.items():
                if isinstance(v, (dict, list)) and key not in ("pat", "pats"):
                    rec(v, skip)

        rec(b["body"], False)
        return out

    def enum_keys(self, t):
        """{variant: key} written by an externally tagged enum; None if not recognised; 'untagged' marker"""
        b = self.ser.get(t)
        if b is None:
            return None
        out = {}
        untagged = True
        for n in walk(b["body"]):
            if n.get("k") == "match":
                for a in n["arms"]:
                    p = a["pat"]
                    while p.get("k") == "pref":
                        p = p["pat"]
                    vn = (p.get("path") or "").rsplit("::", 1)[-1] if p.get("k") in ("pts", "pstruct", "ppath") else None
                    if vn is None:
                        continue
                    key = None
                    for c in walk(a["body"]):
                        if c.get("k") in ("call", "mcall") and re.search(
                                r"serialize_(newtype|unit|tuple|struct)_variant$", c.get("f") or ""):
                            ls = [lit_val(x) for x in c.get("args") or [] if isinstance(lit_val(x), str)]
                            if len(ls) >= 2:
                                key = ls[1]
                                untagged = False
                    out[vn] = key
        return out, untagged

    def read_keys(self, t):
        """keys the derived deserialiser of a struct / enum recognises"""
        d = self.de.get(t) or {}
        b = d.get("visit_str:field")
        if b is None:
            return None
        keys = []
        for n in walk(b["body"]):
            if n.get("k") == "match":
                for a in n["arms"]:
                    if a["pat"].get("k") == "plit" and isinstance(a["pat"].get("v"), str):
                        keys.append(a["pat"]["v"])
        return keys


def walk_binds(p):
    if not isinstance(p, dict):
        return
    if p.get("k") == "bind":
        yield p
    for q in p.get("pats") or []:
        yield from walk_binds(q)
    if p.get("pat"):
        yield from walk_binds(p["pat"])
    for f in p.get("fields") or []:
        yield from walk_binds(f.get("pat"))


def is_opt_enum_ty(F, ty):
    kind, inner = G.unwrap_ty(ty)
    a = F.adts.get(inner)
    return a is not None and a["kind"] == "enum", inner


def j1(rep, F, S):
    r = rep.rule("J1", "JSON keys are unique per object: within every message / sequence struct the plain keys "
                       "and the key sets contributed by flattened option enums are pairwise disjoint (otherwise "
                       "two fields collide or shadow each other on the way back)", floor=40)
    for t, a in sorted(F.adts.items()):
        if a["kind"] != "struct" or a.get("exp") or not t.startswith(("messages::", "swift_message::", "headers::")):
            continue
        w = S.struct_write(t)
        if w is None:
            continue
        r["analysed"] += 1
        ftypes = {f["name"]: f["ty"] for f in a["variants"][0]["fields"]}
        seen = {}
        for key, fld, skip, ln in w:
            r["instances"] += 1
            keys = []
            if key is not None:
                keys = [key]
            else:
                isen, inner = is_opt_enum_ty(F, ftypes.get(fld, ""))
                if isen:
                    ek = S.enum_keys(inner)
                    if ek is not None:
                        keys = [k for k in ek[0].values() if k]
                        if ek[1]:
                            # untagged enum flattened: its payload structs' keys
                            keys = []
                            for v in F.adts[inner]["variants"]:
                                pt = v["fields"][0]["ty"] if v["fields"] else None
                                pw = S.struct_write(pt) if pt else None
                                for kk, _, _, _ in pw or []:
                                    if kk:
                                        keys.append(kk)
                            keys = sorted(set(keys))
                else:
                    # flattened struct / map: its own keys
                    kind, inner = G.unwrap_ty(ftypes.get(fld, ""))
                    pw = S.struct_write(inner)
                    keys = [kk for kk, _, _, _ in pw or [] if kk]
                    if pw is None:
                        rep.notes.append("J1: %s.%s is a flattened %s with arbitrary keys (listed, not judged)"
                                         % (G.short(t), fld, G.short(ftypes.get(fld, "?"))))
            for k in keys:
                if k in seen and seen[k] != fld:
                    b = S.ser[t]
                    rep.add(Finding("J1", t, "%s:%s" % (k, fld),
                                    "JSON key \"%s\" of %s is produced by both `%s` and `%s`: one of the two "
                                    "fields is lost or mis-assigned when the JSON is read back"
                                    % (k, G.short(t), seen[k], fld), a["file"], a["line"]))
                seen.setdefault(k, fld)
    return r


def j2(rep, F, S):
    r = rep.rule("J2", "codec symmetry: for every derived pair the key set the serialiser writes equals the key "
                       "table the deserialiser reads (structs and option enums); hand-written header codecs use "
                       "the same field names on both sides", floor=150)
    for t, a in sorted(F.adts.items()):
        if a.get("exp") or not t.startswith(("messages::", "fields::", "headers::", "swift_message::", "parsed_message::")):
            continue
        if a["kind"] == "struct":
            w = S.struct_write(t)
            rk = S.read_keys(t)
            if w is None or rk is None:
                continue
            r["instances"] += 1
            r["analysed"] += 1
            wk = [k for k, _, _, _ in w if k]
            if sorted(wk) != sorted(rk):
                rep.add(Finding("J2", t, "keys",
                                "%s writes JSON keys %s and reads %s" % (G.short(t), sorted(set(wk) - set(rk)),
                                                                         sorted(set(rk) - set(wk))),
                                a["file"], a["line"]))
        else:
            ek = S.enum_keys(t)
            rk = S.read_keys(t)
            if ek is None or rk is None or ek[1]:
                continue
            r["instances"] += 1
            r["analysed"] += 1
            wk = sorted(k for k in ek[0].values() if k)
            if wk != sorted(rk):
                rep.add(Finding("J2", t, "variant-keys", "%s writes variant keys %s and reads %s"
                                % (G.short(t), wk, sorted(rk)), a["file"], a["line"]))
    # hand-written impls in headers: names given to serialize_field vs fields of the helper struct
    for t in ("headers::BasicHeader", "headers::InputApplicationHeader"):
        sb = None
        db = None
        for b in F.bodies:
            if b.get("impl_self") == t and not b.get("exp") and "body" in b:
                if (b.get("impl_trait") or "").endswith("Serialize") and b["name"] == "serialize":
                    sb = b
                if (b.get("impl_trait") or "").endswith("Deserialize") and b["name"] == "deserialize":
                    db = b
        if sb is None or db is None:
            rep.notes.append("J2: no hand-written codec for %s (derived?)" % t)
            continue
        r["instances"] += 1
        wk = []
        for n in walk(sb["body"]):
            if n.get("k") == "mcall" and n.get("m") == "serialize_field":
                a0 = (n.get("args") or [None])[0]
                if isinstance(lit_val(a0), str):
                    wk.append(lit_val(a0))
        helper = None
        for p, ad in F.adts.items():
            if ad["name"].endswith("Helper") and ad["name"].startswith(t.rsplit("::", 1)[-1]):
                helper = ad
        rk = [f["name"] for f in helper["variants"][0]["fields"]] if helper else []
        if sorted(wk) != sorted(rk):
            rep.add(Finding("J2", sb["path"], "hand-keys",
                            "%s writes %s and its deserialisation helper reads %s" % (G.short(t), sorted(wk), sorted(rk)),
                            sb["file"], sb["line"]))
        # each key is written from the component of the same name (possibly normalised through locals)
        lets = {}
        for n in walk(sb["body"]):
            if n.get("k") == "let" and n["pat"].get("k") == "bind" and n.get("init") is not None:
                lets[n["pat"]["id"]] = n["init"]
            if n.get("k") == "letx":
                for q in walk_binds(n["pat"]):
                    lets[q["id"]] = n["init"]

        def self_fields(e, depth=0):
            out = set()
            for x in walk(e):
                if x.get("k") == "field" and peel(x["e"]).get("name") == "self":
                    out.add(x["name"])
                if x.get("k") == "local" and x.get("id") in lets and depth < 5:
                    out |= self_fields(lets[x["id"]], depth + 1)
            return out
        for n in walk(sb["body"]):
            if n.get("k") == "mcall" and n.get("m") == "serialize_field":
                a = n.get("args") or []
                key = lit_val(a[0]) if a else None
                if isinstance(key, str) and len(a) > 1:
                    r["instances"] += 1
                    src = self_fields(a[1])
                    if src != {key}:
                        rep.add(Finding("J2", sb["path"], "hand-value:%s" % key,
                                        "%s writes JSON key \"%s\" from component(s) %s: the value read back under "
                                        "that key is not the component that was written"
                                        % (G.short(t), key, sorted(src)), sb["file"], n.get("ln")))
        # every helper field reaches the constructed value
        used = set()
        for n in walk(db["body"]):
            if n.get("k") == "field" and helper is not None and \
                    (n.get("bt") or "").replace("&", "").strip().endswith(helper["name"]):
                used.add(n["name"])
        # each component is rebuilt from the key of its own name only (possibly normalised): a component that also
        # depends on another key is not the value that was written under its key
        dlets = {}
        for n in walk(db["body"]):
            if n.get("k") == "let" and n.get("init") is not None:
                for q in walk_binds(n["pat"]):
                    dlets[q["id"]] = n["init"]
            if n.get("k") == "match":
                for a_ in n.get("arms") or []:
                    for q in walk_binds(a_.get("pat")):
                        dlets.setdefault(q["id"], n["e"])

        def helper_fields(e, depth=0, seen=None):
            seen = seen if seen is not None else set()
            out = set()
            for x in walk(e):
                if x.get("k") == "field" and helper is not None and \
                        (x.get("bt") or "").replace("&", "").strip().endswith(helper["name"]):
                    out.add(x["name"])
                if x.get("k") == "local" and x.get("id") in dlets and depth < 6 and x["id"] not in seen:
                    seen.add(x["id"])
                    out |= helper_fields(dlets[x["id"]], depth + 1, seen)
            return out
        for n in walk(db["body"]):
            if n.get("k") == "struct" and (n.get("path") or n.get("t") or "").endswith(t.rsplit("::", 1)[-1]):
                for f in n.get("fields") or []:
                    r["instances"] += 1
                    src = helper_fields(f["e"])
                    if src and not src <= {f["name"]}:
                        rep.add(Finding("J2", db["path"], "mixed:%s" % f["name"],
                                        "%s::deserialize builds %s from the keys %s: what is read back is not the "
                                        "value written under that key" % (G.short(t), f["name"], sorted(src)),
                                        db["file"], n.get("ln")))
        for k in rk:
            if k not in used:
                rep.add(Finding("J2", db["path"], "unused:%s" % k,
                                "%s::deserialize reads key %s and drops it" % (G.short(t), k), db["file"], db["line"]))
    return r


def j5(rep, F, S):
    r = rep.rule("J5", "skip symmetry: a key the serialiser may omit (skip_serializing_if) is optional for the "
                       "deserialiser: the field is an Option or has a default; otherwise the library cannot read back "
                       "the JSON it wrote", floor=100)
    for t, a in sorted(F.adts.items()):
        if a["kind"] != "struct" or a.get("exp") or not t.startswith(("messages::", "fields::", "headers::", "swift_message::")):
            continue
        w = S.struct_write(t)
        d = S.de.get(t) or {}
        vm = d.get("visit_map:main")
        if w is None or vm is None:
            continue
        missing = {}
        for n in walk(vm["body"]):
            if n.get("k") == "call" and (n.get("f") or "").endswith("de::missing_field"):
                key = None
                for x in n.get("args") or []:
                    if isinstance(lit_val(x), str):
                        key = lit_val(x)
                if key is not None:
                    missing[key] = (n.get("ga") or ["?"])[0]
        for key, fld, skip, ln in w:
            if not skip or key is None:
                continue
            r["instances"] += 1
            # the predicate that decides the omission must not look at the content of a present value: is_none and the
            # is_empty of a collection lose nothing (absent and empty read back the same); anything else (a function
            # of the crate, is_some_and ..) can drop a value the model holds
            sk = str(skip).rsplit("::", 1)[-1]
            if sk not in ("is_none", "is_empty"):
                rep.add(Finding("J5", t, "%s:%s:predicate" % (key, fld),
                                "%s omits JSON key \"%s\" (`%s`) when `%s` holds: a predicate other than is_none / "
                                "is_empty can be true for a value that is present, which is then missing from the "
                                "JSON and comes back as absent" % (G.short(t), key, fld, skip), a["file"], a["line"]))
            ty = missing.get(key)
            if ty is not None and not ty.startswith("std::option::Option<"):
                rep.add(Finding("J5", t, "%s:%s" % (key, fld),
                                "%s omits JSON key \"%s\" (`%s`) when %s holds, but reading requires the key (type "
                                "%s, no default): the JSON written for such a value cannot be read back"
                                % (G.short(t), key, fld, skip, G.short(ty)), a["file"], a["line"]))
    return r


def j4(rep, F, S):
    r = rep.rule("J4", "untagged enums are distinguishable: for variants tried in order, the keys required by an "
                       "earlier variant are not all present in a later variant's object (otherwise the later "
                       "variant comes back as the earlier one)", floor=1)
    n = 0
    for t, a in sorted(F.adts.items()):
        if a["kind"] != "enum" or a.get("exp") or not t.startswith("fields::"):
            continue
        ek = S.enum_keys(t)
        if ek is None or not ek[1]:
            continue
        n += 1
        r["analysed"] += 1
        vs = []
        for v in a["variants"]:
            pt = v["fields"][0]["ty"] if v["fields"] else None
            pa = F.adts.get(pt)
            if pa is None:
                continue
            req = [f["name"] for f in pa["variants"][0]["fields"] if not f["ty"].startswith("std::option::Option<")]
            allk = [f["name"] for f in pa["variants"][0]["fields"]]
            vs.append((v["name"], set(req), set(allk)))
        for i in range(len(vs)):
            for j in range(i + 1, len(vs)):
                r["instances"] += 1
                if vs[i][1] <= vs[j][2]:
                    rep.add(Finding("J4", t, "%s<%s" % (vs[i][0], vs[j][0]),
                                    "untagged %s: every key variant %s requires (%s) also occurs in variant %s; "
                                    "JSON of a %s value deserialises as %s"
                                    % (G.short(t), vs[i][0], sorted(vs[i][1]), vs[j][0], vs[j][0], vs[i][0]),
                                    a["file"], a["line"]))
    if n == 0:
        rep.fail_closed("J4: no untagged enum found (Field25AccountIdentification expected)")
    return r


def j6(rep, F, tms):
    r = rep.rule("J6", "ordered containers: every model field that a repetition (loop or repeated step) fills is "
                       "a Vec; no message / sequence / field struct stores parsed content in a hash or tree map",
                 floor=30)
    for tm in tms:
        if tm.g is None:
            continue
        for inst in tm.model_structs():
            flds = dict(tm.ft.struct_fields(inst.path))
            for fname, av in inst.fields.items():
                if not av.flat():
                    continue
                r["instances"] += 1
                ty = flds.get(fname, "")
                if re.search(r"HashMap|HashSet|BTreeMap|BTreeSet", ty):
                    rep.add(Finding("J6", inst.path, fname,
                                    "%s.%s stores parsed fields in %s: their input order is not kept in JSON"
                                    % (G.short(inst.path), fname, ty), tm.file, inst.ln))
    return r


def j7(rep, F):
    r = rep.rule("J7", "codec symmetry: a struct component written through a custom function (serialize_with / "
                       "with) is read through the custom function of the same module, and the other way round; a "
                       "one-sided codec writes a value its own reader does not invert", floor=8)
    ser, de = {}, {}
    rx = re.compile(r"for ([\w:]+(?:<[^>]*>)?)>::(?:serialize|deserialize)")
    for b in F.bodies:
        st = b.get("impl_self") or ""
        if "body" not in b or not ("__SerializeWith" in st or "__DeserializeWith" in st):
            continue
        m = rx.search(b["path"])
        if not m:
            continue
        owner = m.group(1)
        for x in walk(b["body"]):
            if x.get("k") == "call":
                f = x.get("f") or ""
                if f.startswith(("std::", "core::", "alloc::")) or "_serde::" in f:
                    continue
                mod = f.rsplit("::", 1)[0]
                if "__SerializeWith" in st:
                    ser.setdefault(owner, set()).add((mod, f.rsplit("::", 1)[-1]))
                else:
                    de.setdefault(owner, set()).add((mod, f.rsplit("::", 1)[-1]))
    for owner in sorted(set(ser) | set(de)):
        sm = {m for m, _ in ser.get(owner, set())}
        dm = {m for m, _ in de.get(owner, set())}
        r["instances"] += max(len(sm), len(dm))
        b = None
        for cand in F.bodies:
            if cand.get("impl_self") == owner and (cand.get("impl_trait") or "").endswith("_serde::Serialize"):
                b = cand
        for m_ in sorted(sm ^ dm):
            side = "written" if m_ in sm else "read"
            rep.add(Finding("J7", owner, "one-sided:%s" % m_,
                            "%s: a component is %s through %s but not %s through the same module: JSON written by "
                            "the library is not read back to the same value"
                            % (G.short(owner), side, m_, "read" if side == "written" else "written"),
                            b["file"] if b else None, b["line"] if b else None))
    return r


# ---------------------------------------------------------------------------
# J8: what the publish step removes from the JSON before it is turned back into a message

CLEANER_VOCAB = ("is_null", "is_empty", "as_object", "as_array", "is_some_and", "is_none_or", "map_or", "is_none",
                 "is_some", "as_ref", "unwrap_or", "iter", "all", "any", "values", "len")


def j8(rep, F):
    """`clean_null_fields` (publish plugin) runs on the JSON of every message that is published. Its documented
    effect is to remove nulls and containers emptied by that. Every construct in it that *selects* what is kept
    (`filter` / `retain` closures, conditions of `if`s around an insert / push, match guards) may look only at
    nullness and emptiness; a selector that looks at the *content* of a value (as_str, ==, a number test ..) makes
    JSON -> MT drop data the model holds."""
    r = rep.rule("J8", "the publish cleaner removes nulls only: every selecting condition in "
                       "plugin::publish::clean_null_fields (filter / retain closures, if-conditions, match guards) "
                       "is built from is_null / is_empty tests on the value or its container view, nothing that "
                       "reads the content of a value", floor=4)
    b = F.body_by_path.get("plugin::publish::clean_null_fields")
    if b is None or "body" not in b:
        rep.fail_closed("J8: plugin::publish::clean_null_fields not found")
        return r
    sels = []
    for n in walk(b["body"]):
        if n.get("k") == "mcall" and n.get("m") in ("filter", "retain", "filter_map", "take_while", "skip_while",
                                                      "find", "position") and n.get("args"):
            sels.append(("%s closure" % n["m"], n["args"][0], n.get("ln")))
        if n.get("k") == "if":
            sels.append(("if condition", n.get("cond"), n.get("ln")))
        if n.get("k") == "match":
            for a in n.get("arms") or []:
                if a.get("guard") is not None:
                    sels.append(("match guard", a["guard"], n.get("ln")))
    for what, c, ln in sels:
        r["instances"] += 1
        bad = []
        for x in walk(c):
            if x.get("k") == "mcall" and x.get("m") not in CLEANER_VOCAB:
                bad.append(x.get("m"))
            if x.get("k") == "call" and not x.get("ctor") and not (x.get("f") or "").endswith(("::Some", "::None")):
                bad.append((x.get("f") or "?").rsplit("::", 1)[-1])
            if x.get("k") == "bin" and x.get("op") in ("==", "!=", "<", ">", "<=", ">="):
                # comparing a length with a number is emptiness; anything else compares content
                sides = [peel(x["l"]), peel(x["r"])]
                if not any(isinstance(s_, dict) and s_.get("k") == "mcall" and s_.get("m") == "len" for s_ in sides):
                    bad.append(x["op"])
        if bad:
            rep.add(Finding("J8", b["path"], "selector:%s" % ",".join(sorted(set(bad)))[:60],
                            "the %s at line %s of clean_null_fields decides what is kept by `%s`: a value that is "
                            "not null is removed from the JSON before it becomes a message again (JSON -> MT loses "
                            "data the model holds)" % (what, ln, ", ".join(sorted(set(bad)))), b["file"], ln))
    return r
