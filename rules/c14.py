"""C14 — field option letters decide the variant and are preserved."""
from .common import Report
from . import emit, accept
import re
from . import grules, options

LEVEL = "other"
EXPLANATION = ("Finite static evaluation: for every option enum used at a variant step the match of "
               "parse_with_variant is evaluated on all 28 argument classes (None, Some(\"\"), Some(A..Z)) and "
               "the selected arm's constructor/parser pair is compared with the tag the variant's payload emits "
               "(O1); every Ok(E::V(x)) of the content heuristic is traced to <payload of V>::parse(input) (O2); "
               "the MessageParser call sites pass the detected letter (O3); emitted tag per variant (G5) and "
               "detector letter coverage (G7) are shared with C02/C01; the accept condition and delivered variant of every "
               "option enum parser are compared with the reviewed reference (U6/U7); the MessageParser variant "
               "steps call no letterless parser.")
ASSUMPTIONS = ["resolved callees (Instance::try_resolve) identify which payload parser an arm calls"]


def run(F, tier):
    rep = Report("C14")
    tms, ft = grules.models(F)
    options.o1(rep, F, ft, tms)
    options.o2(rep, F, ft)
    options.o3(rep, F)
    grules.g4_g5_g6(rep, tms)
    rep.findings = [f for f in rep.findings if f.rule not in ("G4", "G6")]
    rep.rules.pop("G4", None); rep.rules.pop("G6", None)
    # only the variant-step instances of G5 concern option letters
    grules.g7(rep, tms, F)
    # which option enum (= which letter set) stands at which position of which message
    grules.g11(rep, tms)
    rep.findings = [f for f in rep.findings if not (f.rule == "G11" and not f.instance.endswith(":type"))]
    rep.sample({"enum": "Field59", "arguments": ["None", 'Some("")', 'Some("A")', "..."],
                "rule": "O1 evaluates the match arms statically"})
    emit.e1(rep, F, "fields")
    # the content heuristics and letter dispatchers of the option enums: which variant is chosen under which
    # condition, and what it carries, against the reviewed reference
    enums = sorted(G_short for G_short in (t for t in ft.types if ft.is_enum(t)))
    rx = re.compile(r"^<(%s) as traits::SwiftField>::parse(_with_variant)?$" % "|".join(re.escape(e) for e in enums))
    accept.u6(rep, F, ("options", rx, 25))
    accept.u7(rep, F, ("options", rx, 25))
    # the letterless fallback of an option enum tries its variants' own parsers: what each of them accepts decides
    # which variant a content falls into
    payload = set()
    for e in enums:
        ad = F.adts.get(e) or {}
        for v in ad.get("variants") or []:
            for f_ in v.get("fields") or []:
                ty = (f_.get("ty") or "").strip()
                if ty.startswith("fields::") and ty in F.adts:
                    payload.add(ty)
    if payload:
        rxv = re.compile(r"^<(%s) as traits::SwiftField>::parse$" % "|".join(re.escape(t) for t in sorted(payload)))
        accept.u6(rep, F, ("option-variants", rxv, 60))
        # ... and the shared validators those parsers call decide with them (a BIC test that lets a name line
        # through turns option-less party fields into option A)
        from .facts import walk as _walk, callee as _callee
        utils = set()
        for b_ in F.bodies:
            if "body" in b_ and not b_.get("exp") and rxv.search(b_.get("path") or ""):
                for n_ in _walk(b_["body"]):
                    if n_.get("k") in ("call", "mcall"):
                        c_ = _callee(n_)
                        if c_.startswith(("fields::swift_utils::", "fields::field_utils::")):
                            utils.add(c_)
        if utils:
            rxu = re.compile(r"^(%s)$" % "|".join(re.escape(u) for u in sorted(utils)))
            accept.u6(rep, F, ("option-validators", rxu, 5))
    # message-level routing of option letters done by hand (a helper that looks at the next tag itself)
    mh = ("message-helpers", re.compile(r"^messages::\w+::\w+::parse_(?!from_block4)"), 1)
    accept.u6(rep, F, mh)
    accept.u7(rep, F, mh)
    return rep
