"""C14 — field option letters decide the variant and are preserved."""
from .common import Report
from . import emit
from . import grules, options

LEVEL = "other"
EXPLANATION = ("Finite static evaluation: for every option enum used at a variant step the match of "
               "parse_with_variant is evaluated on all 28 argument classes (None, Some(\"\"), Some(A..Z)) and "
               "the selected arm's constructor/parser pair is compared with the tag the variant's payload emits "
               "(O1); every Ok(E::V(x)) of the content heuristic is traced to <payload of V>::parse(input) (O2); "
               "the MessageParser call sites pass the detected letter (O3); emitted tag per variant (G5) and "
               "detector letter coverage (G7) are shared with C02/C01.")
ASSUMPTIONS = ["resolved callees (Instance::try_resolve) identify which payload parser an arm calls"]


def run(F, tier):
    rep = Report("C14")
    tms, ft = grules.models(F)
    options.o1(rep, F, ft, tms)
    options.o2(rep, F, ft)
    options.o3(rep, F)
    grules.g4_g5_g6(rep, tms)
    rep.findings = [f for f in rep.findings if f.rule not in ("G4", "G6")]
    rep.rules.pop("G4", None); rep.rules.pop("G6", None)
    # only the variant-step instances of G5 concern option letters
    grules.g7(rep, tms, F)
    rep.sample({"enum": "Field59", "arguments": ["None", 'Some("")', 'Some("A")', "..."],
                "rule": "O1 evaluates the match arms statically"})
    emit.e1(rep, F, "fields")
    return rep
