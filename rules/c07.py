"""C07 — parsing is total: any input gives a value or an error, never a panic or hang."""
import re
from .common import Report, Finding
from . import panics, grules, relidx, grammar as G
from .callgraph import CallGraph

LEVEL = "other"
EXPLANATION = ("Panic ledger by abstract interpretation of the structured HIR of every function reachable from the "
               "public entry points (parsers, header parsers, tokeniser API, serialisers, validators, JSON codecs, "
               "error rendering): per place a lower bound of the byte length, ASCII-ness, Some/Ok-ness, proven "
               "prefixes/suffixes and char-boundary positions (find / char_indices / relative finds / validator and "
               "predicate summaries computed from the callee bodies) are tracked path-sensitively. P1 explicit "
               "panics; P2 every str/String slice must have char-boundary bounds and, for constant bounds, a "
               "dominating length guard; P3 every unwrap/expect must be dominated by a proof of Some/Ok; P4 "
               "constant vector indices need a length guard; P5 every recursion cycle is a reviewed structural one; "
               "P6 loop progress: every path of a `while` body that returns to the condition touches the state the "
               "condition reads, every `loop` has an exit; G8 sequence loops consume their marker or leave. "
               "Run time and in-bounds safety of relational (non-constant) byte offsets are not decided.")
ASSUMPTIONS = ["library functions (str::find, char_indices, split_at) return char boundaries of their receiver",
               "integer-overflow asserts are debug-only and are counted, not judged"]


# reviewed: both recurse over a finite owned value (error source chain / serde_json::Value), one level per call
REVIEWED_RECURSION = {"ParseError::debug_report", "publish::clean_null_fields"}


def sccs(cg, nodes):
    index, low, onst, st, out = {}, {}, set(), [], []
    import sys
    sys.setrecursionlimit(10000)
    cnt = [0]

    def go(v):
        index[v] = low[v] = cnt[0]
        cnt[0] += 1
        st.append(v)
        onst.add(v)
        for w in cg.callees(v, resolve_traits=False):
            if w not in nodes:
                continue
            if w not in index:
                go(w)
                low[v] = min(low[v], low[w])
            elif w in onst:
                low[v] = min(low[v], index[w])
        if low[v] == index[v]:
            comp = []
            while True:
                w = st.pop()
                onst.discard(w)
                comp.append(w)
                if w == v:
                    break
            if len(comp) > 1 or v in cg.callees(v, resolve_traits=False):
                out.append(comp)
    for v in sorted(nodes):
        if v not in index:
            go(v)
    return out


def run(F, tier):
    rep = Report("C07")
    led, summ, nfns = panics.ledger(F)
    r1 = rep.rule("P1", "no explicit panic!/unreachable!/todo!/assert! in reachable library code; the panicking "
                        "default of SwiftMessageBody::parse_from_block4 is unreachable iff all impls override it",
                  floor=1)
    r2 = rep.rule("P2", "every str/String slice has bounds proven to be char boundaries of its base (0, len, a "
                        "search result on the same base, a proven ASCII prefix/suffix length) or an ASCII-proven "
                        "base, and a constant bound k is dominated by a guard implying len >= k", floor=300)
    r3 = rep.rule("P3", "every unwrap()/expect() is dominated by a proof that the receiver is Some/Ok "
                        "(is_some / if-let / non-empty text for first char / ASCII + length for nth char / "
                        "ASCII-digit text for parse)", floor=20)
    r4 = rep.rule("P4", "a constant index into a vector / slice is dominated by a guard implying len > k; a "
                        "non-constant index I into V is dominated by a guard relating it to V.len() (enclosing "
                        "`I < V.len()`, earlier `if I >= V.len() { leave }`, `for I in a..V.len()`, `V.len() - c` "
                        "under a length guard) with no assignment to I and no shrinking of V in between", floor=50)
    r1["functions_analysed"] = nfns
    r1["summaries"] = {k: v for k, v in summ.items() if k.startswith(("pred:", "posfn:")) or v.get("arg0", {}).get("ascii")
                       or v.get("arg0", {}).get("minlen")}
    # P1: all impls override parse_from_block4?
    impls = F.impls_of("traits::SwiftMessageBody")
    missing = [i["self"] for i in impls if not any(it["name"] == "parse_from_block4" for it in i["items"])]
    unjudged = 0
    judges = {}
    for s in led:
        rid = s.kind
        rr = rep.rules[rid]
        rr["instances"] += 1
        if s.verdict == "safe":
            continue
        if s.verdict == "unjudged":
            ix = s.node.get("i") or {}
            while isinstance(ix, dict) and ix.get("k") in ("ref", "paren"):
                ix = ix.get("e")
            if isinstance(ix, dict) and ix.get("k") == "struct" and "Range" in (ix.get("path") or ""):
                unjudged += 1        # sub-slice of a vector by a non-constant range: listed, not judged
                continue
            j = judges.setdefault(s.fn["path"], relidx.Judge(s.fn))
            verdict, why = j.judge(s.node)
            r4["relational"] = r4.get("relational", 0) + 1
            if verdict == "safe":
                continue
            s.why = why
            rid = "P4"
        b = s.fn
        if rid == "P1" and b["path"] == "traits::SwiftMessageBody::parse_from_block4" and not missing:
            continue
        key_txt = s.text
        msg = {
            "P1": "explicit panic in %s" % b["path"],
            "P2": "%s slices text by byte offsets without proof (%s): a multi-byte character straddling the offset, "
                  "or a shorter text, panics" % (b["path"], s.why),
            "P3": "%s unwraps a value that can be None/Err: %s" % (b["path"], s.why),
            "P4": "%s indexes a vector without a dominating length guard (%s)" % (b["path"], s.why),
        }[rid]
        rep.add(Finding(rid, b["path"], key_txt, msg, b["file"], s.node.get("ln"), detail={"why": s.why}))
    for t in missing:
        rep.add(Finding("P1", "traits::SwiftMessageBody::parse_from_block4", "not-overridden:%s" % G.short(t),
                        "%s does not override parse_from_block4: the panicking trait default is reachable through "
                        "every generic parse entry point" % G.short(t)))
    r4["unjudged_nonconstant"] = unjudged
    # P2b: the end bound `t + c` of a string slice against the length of the text (relational part of P2)
    r2b = rep.rule("P2b", "a string slice whose end is `<variable> + <constant>` is dominated by a guard that implies "
                          "variable + constant <= text.len() (enclosing `<=` test, earlier `if .. > len { leave }`, "
                          "left operand of &&) with the variable unchanged in between", floor=4)
    for s in led:
        if s.kind == "P2" and s.node.get("k") == "index":
            j = judges.setdefault(s.fn["path"], relidx.Judge(s.fn))
            v = relidx.judge_str_end(j, s.node)
            if v is None:
                continue
            r2b["instances"] += 1
            if v == "finding":
                rep.add(Finding("P2b", s.fn["path"], s.text,
                                "%s takes %s without a dominating test that the end of the range lies inside the "
                                "text: a shorter input panics" % (s.fn["path"], s.text), s.fn["file"], s.node.get("ln")))
    from . import charidx
    charidx.p7(rep, F)
    # P5: recursion cycles and loops (listed)
    cg = CallGraph(F)
    nodes = set(p for p in F.mir if not F.mir[p].get("exp"))
    cyc = sccs(cg, nodes)
    r5 = rep.rule("P5", "every recursion cycle of the crate is one of the reviewed structural recursions (over an "
                        "error chain / a JSON value); a new cycle means input-controlled stack depth", floor=2)
    r5["recursion_cycles"] = [[x.rsplit("::", 2)[-2] + "::" + x.rsplit("::", 1)[-1] for x in c][:6] for c in cyc][:20]
    for c in cyc:
        r5["instances"] += 1
        names = sorted(x.rsplit("::", 2)[-2] + "::" + x.rsplit("::", 1)[-1] for x in c)
        if not all(n in REVIEWED_RECURSION for n in names):
            b0 = F.body_by_path.get(sorted(c)[0]) or {}
            rep.add(Finding("P5", sorted(c)[0], "recursion:%s" % ",".join(names)[:120],
                            "recursion cycle %s is not among the reviewed structural recursions: its depth may be "
                            "controlled by the input (stack exhaustion)" % names[:4], b0.get("file"), b0.get("line")))
    tms, ft = grules.models(F)
    grules.g8(rep, tms)
    from . import loops
    loops.p6(rep, F)
    for s in led[:3]:
        rep.sample({"site": s.text, "fn": s.fn["path"], "verdict": s.verdict, "why": s.why})
    return rep
