"""V-rules (rule wiring, stated code = used code) and S-rules (stop flag discipline, purity, adapters)."""
import re
from .common import Finding
from .facts import walk, is_call, lit_val, peel, callee
from . import grammar as G
from .callgraph import CallGraph

ERR_CTORS = ("SwiftValidationError::format_error", "SwiftValidationError::business_error",
             "SwiftValidationError::content_error", "SwiftValidationError::relation_error",
             "SwiftValidationError::general_error")
DOC_CODES = re.compile(r"\(Error codes?:\s*([A-Z]\d{2}(?:\s*,\s*[A-Z]\d{2})*)\)")
CODE = re.compile(r"^[A-Z]\d{2}$")


def vnr(F, T):
    """the function holding the logic of validate_network_rules for type T (inherent if the trait fn delegates)"""
    ih = F.fn(T, "validate_network_rules", None)
    tr = F.fn(T, "validate_network_rules", "SwiftMessageBody")
    return ih or tr, tr


def rule_fns(F, T):
    out = []
    for (st, name), bs in F.by_self.items():
        if st == T and name.startswith("validate_") and name != "validate_network_rules":
            for b in bs:
                if not b.get("impl_trait") and not b.get("exp"):
                    out.append(b)
    return sorted(out, key=lambda b: b["line"])


def error_sites(body):
    """[(code literal or None, node)] of every SwiftValidationError constructor call"""
    out = []
    for n in walk(body):
        if n.get("k") == "call" and any((n.get("f") or "").endswith(s) for s in ERR_CTORS):
            a = n.get("args") or []
            code = lit_val(a[0]) if a else None
            if code is None and a:
                # constants such as t_series::T03
                x = peel(a[0])
                if isinstance(x, dict) and x.get("k") == "def":
                    code = (x.get("def") or "").rsplit("::", 1)[-1]
            out.append((code, n))
    return out


def with_const_tables(F, body, depth=0):
    """nodes of a body and of the (associated) constants it reads: a table of rule functions kept in a `const`
    belongs to the function that runs it"""
    seen = set()
    for n in walk(body):
        yield n
        if n.get("k") == "def" and n.get("dk") in ("const", "assoc_const") and n.get("def") not in seen and depth < 2:
            seen.add(n.get("def"))
            cb = F.body_by_path.get(n.get("def"))
            if cb is not None and "body" in cb:
                yield from with_const_tables(F, cb["body"], depth + 1)


def v1(rep, F):
    r = rep.rule("V1", "every private validate_* rule function of an impl MTnnn is called exactly once from "
                       "that type's validate_network_rules, and nothing else is", floor=78)
    r2 = rep.rule("V1n", "per-type count of wired rule functions is not below the count confirmed on the "
                         "pinned tree (deleting a rule together with its call is seen)", floor=30)
    confirmed = {"MT101": 10, "MT103": 13, "MT104": 14, "MT107": 10, "MT110": 2, "MT192": 1, "MT196": 1,
                 "MT200": 1, "MT202": 2, "MT204": 3, "MT205": 1, "MT210": 3, "MT292": 1, "MT296": 1,
                 "MT910": 1, "MT920": 4, "MT935": 4, "MT940": 2, "MT941": 1, "MT942": 3, "MT950": 1}
    for T in G.message_types(F):
        name = G.short(T)
        main, tr = vnr(F, T)
        r2["instances"] += 1
        if main is None:
            rep.add(Finding("V1", T, "no-validate", "%s has no validate_network_rules" % name))
            continue
        rules = rule_fns(F, T)
        # validate_instance etc. (pub, Result-returning) are not network rule functions
        rules = [b for b in rules if "SwiftValidationError" in (b.get("output") or "")]
        calls = {}
        for n in with_const_tables(F, main["body"]):
            if n.get("k") in ("call", "mcall"):
                c = callee(n)
                calls[c] = calls.get(c, 0) + 1
            if n.get("k") == "def" and n.get("dk") in ("assoc_fn", "fn") and n.get("def"):
                # a rule function referred to by value (entry of a table of rules that is run in a loop)
                calls[n["def"]] = calls.get(n["def"], 0) + 1
        wired = 0
        for b in rules:
            r["instances"] += 1
            k = calls.get(b["path"], 0)
            if k == 1:
                wired += 1
            elif k == 0:
                # may be a helper called by another rule fn
                used = any(any(callee(x) == b["path"] for x in walk(o["body"]) if x.get("k") in ("call", "mcall"))
                           for o in rules if o is not b)
                if used:
                    wired += 1
                    continue
                rep.add(Finding("V1", main["path"], b["name"],
                                "rule function %s::%s is never called from validate_network_rules: the rule "
                                "it documents is not enforced" % (name, b["name"]), b["file"], b["line"]))
            else:
                rep.add(Finding("V1", main["path"], b["name"] + ":twice",
                                "rule function %s is called %d times (duplicate errors)" % (b["name"], k),
                                b["file"], b["line"]))
        want = confirmed.get(name, 0)
        if wired < want:
            rep.add(Finding("V1n", main["path"], "count:%s" % name,
                            "%s wires %d rule functions; %d were confirmed on the pinned tree: a documented "
                            "rule has disappeared" % (name, wired, want), main["file"], main["line"]))
        r2.setdefault("counts", {})[name] = wired
        # the generic entry points (SwiftMessage::validate, the wrapper enum) call the trait method: without an
        # override they get the trait default, an empty list
        if tr is None:
            rep.add(Finding("V1", main["path"], "no-trait-method",
                            "%s has rule functions but its impl SwiftMessageBody does not override "
                            "validate_network_rules: SwiftMessage::validate and the auto-detected wrapper report "
                            "every %s as valid" % (name, name), main["file"], main["line"]))
        # trait fn must delegate to the same logic with the flag passed through
        if tr is not None and tr is not main:
            ok = any(callee(n) == main["path"] for n in walk(tr["body"]) if n.get("k") in ("call", "mcall"))
            if not ok:
                rep.add(Finding("V1", tr["path"], "trait-delegation",
                                "SwiftMessageBody::validate_network_rules of %s does not call the inherent "
                                "rule list" % name, tr["file"], tr["line"]))
    return r


def v2(rep, F):
    r = rep.rule("V2", "stated code = used code: the error codes named in a rule function's doc comment are "
                       "exactly the code literals its body (and private helpers it calls) passes to the "
                       "error constructors", floor=70)
    for T in G.message_types(F):
        name = G.short(T)
        for b in rule_fns(F, T):
            doc = b.get("doc") or ""
            stated = set()
            for m in DOC_CODES.finditer(doc):
                stated |= {c.strip() for c in m.group(1).split(",")}
            used = {c for c, _ in error_sites(b["body"]) if c}
            # helpers of the same impl
            for n in walk(b["body"]):
                if n.get("k") in ("call", "mcall"):
                    hb = F.body_by_path.get(callee(n))
                    if hb is not None and hb.get("impl_self") == T and hb is not b and "body" in hb \
                            and not hb["name"].startswith("validate_"):
                        used |= {c for c, _ in error_sites(hb["body"]) if c}
            if not stated and not used:
                continue
            r["instances"] += 1
            r["analysed"] += 1
            # a code handed to a shared helper as an argument (the helper builds the error) counts as used
            for n in walk(b["body"]):
                if n.get("k") in ("call", "mcall"):
                    hb = F.body_by_path.get(callee(n))
                    if hb is not None and "body" in hb and not hb.get("exp") and \
                            any(True for _ in error_sites(hb["body"])):
                        for a_ in n.get("args") or []:
                            v_ = lit_val(peel(a_))
                            if isinstance(v_, str) and re.fullmatch(r"[A-Z]\d{2}", v_):
                                used.add(v_)
                if n.get("k") == "array" or n.get("k") == "tup":
                    for x in walk(n):
                        v_ = lit_val(x) if x.get("k") == "lit" else None
                        if isinstance(v_, str) and re.fullmatch(r"[A-Z]\d{2}", v_):
                            used.add(v_)
            for c in sorted(stated - used):
                from . import decide
                rw, who = decide.rewritten(F, b["path"])
                if rw:
                    rep.notes.append("V2: %s was restructured (%d statements / conditions changed): whether it "
                                     "still emits %s is undecided" % (b["path"], rw, c))
                    continue
                rep.add(Finding("V2", b["path"], "stated-not-emitted:%s" % c,
                                "%s::%s documents error code %s but no path emits it: the rule is not "
                                "implemented" % (name, b["name"], c), b["file"], b["line"]))
            for c in sorted(used - stated):
                if stated:
                    rep.add(Finding("V2", b["path"], "emitted-not-stated:%s" % c,
                                    "%s::%s emits error code %s, its documentation states %s"
                                    % (name, b["name"], c, ",".join(sorted(stated))), b["file"], b["line"]))
    return r


# ---------------------------------------------------------------------------
# S1

def _flag_param(b):
    """(local id of the bool flag parameter, index) or None"""
    ps = b.get("params") or []
    ins = b.get("inputs") or []
    for i, (p, t) in enumerate(zip(ps, ins)):
        if t == "bool" and p.get("k") == "bind":
            return p["id"], i
    return None


def _is_ret_of(n, acc):
    """node is `return acc` (possibly as the only content of a block)"""
    if n is None:
        return False
    if n.get("k") == "block":
        st = n.get("stmts") or []
        if len(st) == 1 and n.get("expr") is None:
            return _is_ret_of(st[0], acc)
        if not st and n.get("expr") is not None:
            return _is_ret_of(n["expr"], acc)
        return False
    if n.get("k") == "ret":
        e = peel(n.get("e")) if n.get("e") else None
        return isinstance(e, dict) and e.get("k") == "local" and e.get("id") == acc
    return False


def _push_stmt(n, acc):
    """statement n itself is `acc.push(..)` (not merely contains one somewhere inside a condition)"""
    x = n
    while isinstance(x, dict) and x.get("k") in ("semi", "stmt"):
        x = x.get("e") or x.get("expr")
    if isinstance(x, dict) and x.get("k") == "mcall" and x.get("m") == "push":
        rv = peel(x.get("recv"))
        return isinstance(rv, dict) and rv.get("k") == "local" and rv.get("id") == acc
    return False


def _pushes(n, acc, only_push=False):
    for x in walk(n):
        if x.get("k") == "mcall" and x.get("m") in (("push",) if only_push else ("push", "extend", "append", "extend_from_slice")):
            rv = peel(x.get("recv"))
            if isinstance(rv, dict) and rv.get("k") == "local" and rv.get("id") == acc:
                return True
    return False


REORDER = ("sort", "sort_by", "sort_by_key", "sort_unstable", "sort_unstable_by", "sort_unstable_by_key",
           "sort_by_cached_key", "reverse", "dedup", "dedup_by", "dedup_by_key", "retain", "retain_mut",
           "truncate", "insert", "swap", "remove", "swap_remove", "clear", "drain", "pop", "rotate_left",
           "rotate_right", "split_off", "splice", "resize", "fill")
S4_COUNT = [0]


def s1_fn(rep, F, b, r, depth=0, seen=None):
    seen = seen if seen is not None else set()
    if b["path"] in seen:
        return
    seen.add(b["path"])
    fp = _flag_param(b)
    if fp is None:
        return
    flag, _ = fp
    r["analysed"] += 1
    body = b["body"]
    # pure delegation: fn f(&self, flag) { Type::f(self, flag) }
    tl = G.tail_exprs(body)
    if len(tl) == 1 and tl[0].get("k") in ("call", "mcall") and not (body.get("stmts") or []):
        c = tl[0]
        hb = F.body_by_path.get(callee(c))
        a = c.get("args") or []
        if hb is not None and hb["name"] == b["name"] and a and peel(a[-1]).get("k") == "local" \
                and peel(a[-1]).get("id") == flag:
            r["instances"] += 1
            s1_fn(rep, F, hb, r, depth + 1, seen)
            return
    # accumulator: the local returned at the tail
    tails = G.tail_exprs(body)
    acc = None
    for t in tails:
        t = peel(t)
        if isinstance(t, dict) and t.get("k") == "local":
            acc = t["id"]
    uses = 0
    derived = set()

    def visit(n, parents):
        nonlocal uses
        if isinstance(n, list):
            for i, x in enumerate(n):
                if isinstance(x, (dict, list)):
                    visit(x, parents + [("list", n, i)])
            return
        if not isinstance(n, dict):
            return
        if n.get("k") == "local" and n.get("id") == flag:
            uses += 1
            r["instances"] += 1
            check_use(n, parents)
            return
        for k, v in n.items():
            if isinstance(v, (dict, list)) and k not in ("pat", "pats"):
                visit(v, parents + [(k, n, None)])

    def check_use(n, parents):
        # climb to the enclosing `if` whose condition contains this use, or the call taking it
        i = len(parents) - 1
        path_keys = []
        while i >= 0:
            key, node, idx = parents[i]
            if key == "list":
                i -= 1
                continue
            path_keys.append(key)
            if node.get("k") in ("call", "mcall") and key == "args":
                return check_passed(node, parents[:i])
            if node.get("k") == "if" and key == "cond":
                return check_if(node, parents[:i])
            if node.get("k") == "assign" and key == "r" and isinstance(peel(node.get("l")), dict) \
                    and peel(node["l"]).get("k") == "local":
                # stopped = flag [&& !acc.is_empty()]: the same two idioms, kept in a variable
                fake = {"k": "if", "ln": node.get("ln"), "cond": node["r"],
                        "then": {"k": "block", "stmts": [{"k": "assign", "l": node["l"],
                                                          "r": {"k": "lit", "t": "bool", "v": True}}], "expr": None},
                        "else": None}
                return check_if(fake, parents[:i])
            if node.get("k") in ("bin", "un", "ref", "block") or key in ("l", "r", "e"):
                i -= 1
                continue
            break
        rep.add(Finding("S1", b["path"], "flag-use",
                        "stop_on_first_error is used outside the `if flag [&& !acc.is_empty()] { return acc }` "
                        "idiom in %s: the two modes may differ in more than where they stop" % b["name"],
                        b["file"], n.get("ln") or b["line"]))

    def check_if(ifn, parents):
        cond = ifn["cond"]
        ln = ifn.get("ln")
        ok_ret = acc is not None and _is_ret_of(ifn["then"], acc) and ifn.get("else") is None
        # single-exit style: the branch only raises a local "stopped" flag; everything after it must be skipped
        # under that flag (checked below: the flag is used in conditions only)
        if not ok_ret and ifn.get("else") is None and isinstance(ifn.get("then"), dict) and ifn["then"].get("k") == "block":
            st_ = list(ifn["then"].get("stmts") or [])
            if ifn["then"].get("expr") is not None:
                st_.append(ifn["then"]["expr"])
            raised = []
            for x in st_:
                if x.get("k") == "assign" and lit_val(peel(x.get("r"))) is True and \
                        isinstance(peel(x.get("l")), dict) and peel(x["l"]).get("k") == "local":
                    raised.append(peel(x["l"])["id"])
                else:
                    raised = None
                    break
            if raised:
                derived.update(raised)
                ok_ret = True
        if not ok_ret:
            rep.add(Finding("S1", b["path"], "stop-branch",
                            "the stop_on_first_error branch in %s does not simply `return` the accumulated "
                            "list (it must return the same vector, unchanged, and have no else)" % b["name"],
                            b["file"], ln))
            return
        c = cond
        bare = isinstance(c, dict) and peel(c).get("k") == "local"
        nonempty = False
        if isinstance(c, dict) and c.get("k") == "bin" and c.get("op") == "&&":
            for side in (c["l"], c["r"]):
                s = side
                if s.get("k") == "un" and s.get("op") == "!":
                    m = s["e"]
                    if m.get("k") == "mcall" and m.get("m") == "is_empty":
                        rv = peel(m["recv"])
                        if isinstance(rv, dict) and rv.get("k") == "local" and rv.get("id") == acc:
                            nonempty = True
            others = [x for x in walk(c) if x.get("k") in ("call", "mcall") and x.get("m") != "is_empty"]
            if others:
                nonempty = False
        if nonempty:
            return
        if bare:
            # must be dominated by a push in the same block
            for key, node, idx in reversed(parents):
                if key == "list":
                    prior = node[:idx]
                    if any(_push_stmt(p, acc) for p in prior):
                        return
                    break
                if key == "expr" and node.get("k") == "block":
                    if any(_push_stmt(p, acc) for p in node.get("stmts") or []):
                        return
                    break
            rep.add(Finding("S1", b["path"], "stop-without-error",
                            "`if stop_on_first_error { return .. }` in %s is not preceded by a push in its "
                            "branch: stop mode can return an empty list although the full list is not empty"
                            % b["name"], b["file"], ln))
            return
        rep.add(Finding("S1", b["path"], "stop-condition",
                        "unrecognised stop condition in %s" % b["name"], b["file"], ln))

    def check_passed(call, parents):
        cal = callee(call)
        hb = F.body_by_path.get(cal)
        if hb is None or "body" not in hb:
            rep.add(Finding("S1", b["path"], "flag-passed:%s" % cal.rsplit("::", 1)[-1],
                            "stop_on_first_error is passed to %s, which is not analysable" % cal,
                            b["file"], call.get("ln")))
            return
        if hb["name"] == b["name"] and hb.get("impl_self") == b.get("impl_self"):
            return   # trait fn delegating to the inherent fn
        s1_fn(rep, F, hb, r, depth + 1, seen)
        # the statement after the one extending acc with the callee's result must be the guarded return
        for key, node, idx in reversed(parents):
            if key == "list":
                rest = node[idx + 1:]
                # allow `acc.extend(x)` then the guarded return
                k = 0
                while k < len(rest) and _pushes(rest[k], acc) and rest[k].get("k") != "if":
                    k += 1
                nxt = rest[k] if k < len(rest) else None
                good = False
                if isinstance(nxt, dict) and nxt.get("k") == "if" and _is_ret_of(nxt["then"], acc):
                    good = any(x.get("k") == "local" and x.get("id") == flag for x in walk(nxt["cond"]))
                if not good and not (k >= len(rest)):
                    rep.add(Finding("S1", b["path"], "after-flag-callee:%s" % hb["name"],
                                    "after extending the list with %s(stop_on_first_error) the function does "
                                    "not immediately return in stop mode: later errors would follow a truncated "
                                    "sub-list (not a prefix of the full list)" % hb["name"], b["file"],
                                    call.get("ln")))
                break

    visit(body, [])
    # a derived "stopped" flag may only steer control: conditions of if / while, nothing else
    if derived:
        def dvisit(n, parents):
            if isinstance(n, list):
                for i_, x in enumerate(n):
                    if isinstance(x, (dict, list)):
                        dvisit(x, parents + [("list", n, i_)])
                return
            if not isinstance(n, dict):
                return
            if n.get("k") == "local" and n.get("id") in derived:
                ok_ = False
                for key, node, idx in reversed(parents):
                    if key == "list":
                        continue
                    if node.get("k") in ("if", "while") and key == "cond":
                        ok_ = True
                        break
                    if node.get("k") == "assign" and key == "l":
                        ok_ = True
                        break
                    if node.get("k") in ("bin", "un", "ref", "block", "paren") or key in ("l", "r", "e"):
                        continue
                    break
                if not ok_:
                    rep.add(Finding("S1", b["path"], "derived-flag-use",
                                    "a flag raised in stop mode is used outside a condition in %s" % b["name"],
                                    b["file"], b["line"]))
                return
            for k_, v in n.items():
                if isinstance(v, (dict, list)) and k_ not in ("pat", "pats"):
                    dvisit(v, parents + [(k_, n, None)])
        dvisit(body, [])
    # all returns give the accumulator
    if uses == 0:
        r["instances"] += 1     # flag unused: both modes are the same computation
        return
    if acc is None:
        rep.add(Finding("S1", b["path"], "no-accumulator",
                        "%s does not return a single accumulated vector" % b["name"], b["file"], b["line"]))
    else:
        # S4: the accumulator is append-only; its order is the evaluation order in both modes
        for n in walk(body):
            if n.get("k") == "mcall":
                rv = peel(n.get("recv"))
                if isinstance(rv, dict) and rv.get("k") == "local" and rv.get("id") == acc:
                    S4_COUNT[0] += 1
                    if n.get("m") in REORDER:
                        rep.add(Finding("S4", b["path"], "reorder:%s" % n["m"],
                                        "%s applies %s() to its accumulated error list: stop mode returns in "
                                        "evaluation order, so it would no longer be a prefix of full mode"
                                        % (b["name"], n["m"]), b["file"], n.get("ln")))
            elif n.get("k") == "ref" and n.get("mut") and n.get("e", {}).get("k") == "local" \
                    and n["e"].get("id") == acc:
                S4_COUNT[0] += 1
                rep.add(Finding("S4", b["path"], "mut-borrow",
                                "%s lends its accumulated error list mutably at line %s (not an append the rule "
                                "can follow)" % (b["name"], n.get("ln")), b["file"], n.get("ln")))
        # ... and never replaced once something was added to it (an assignment drops what the earlier rules found)
        appended = False
        for n in walk(body):
            if n.get("k") == "mcall" and n.get("m") in ("extend", "push", "append", "extend_from_slice", "insert"):
                rv = peel(n.get("recv"))
                if isinstance(rv, dict) and rv.get("k") == "local" and rv.get("id") == acc:
                    appended = True
            if n.get("k") == "assign":
                l_ = peel(n.get("l"))
                if isinstance(l_, dict) and l_.get("k") == "local" and l_.get("id") == acc:
                    S4_COUNT[0] += 1
                    if appended:
                        rep.add(Finding("S4", b["path"], "overwrite",
                                        "%s assigns a new value to its accumulated error list after errors were "
                                        "added to it: what the earlier rules found is lost in full mode (stop mode "
                                        "has returned before), so the stop list is no longer a prefix of the full list"
                                        % b["name"], b["file"], n.get("ln")))
        for n in walk(body):
            if n.get("k") == "ret":
                e = peel(n.get("e")) if n.get("e") else None
                if not (isinstance(e, dict) and e.get("k") == "local" and e.get("id") == acc):
                    if isinstance(e, dict) and e.get("k") == "closure":
                        continue
                    rep.add(Finding("S1", b["path"], "return-other",
                                    "%s returns something other than its accumulated list at line %s"
                                    % (b["name"], n.get("ln")), b["file"], n.get("ln")))


def s1(rep, F):
    r = rep.rule("S1", "stop flag discipline: in validate_network_rules (and callees receiving the flag) the "
                       "flag occurs only as `if flag && !acc.is_empty() { return acc }` or as `if flag { return "
                       "acc }` dominated by a push in the same branch; every return yields the accumulator; "
                       "after a flag-taking callee the stop return follows immediately", floor=100)
    seen = set()
    S4_COUNT[0] = 0
    r4 = rep.rule("S4", "the accumulated error list of validate_network_rules (and of callees receiving the flag) "
                        "is append-only: no sort / reverse / dedup / retain / remove / truncate and no mutable "
                        "loan, so full mode lists errors in evaluation order and stop mode is its prefix",
                  floor=100)
    for T in G.message_types(F):
        main, tr = vnr(F, T)
        if main is None:
            continue
        if tr is not None and tr is not main:
            s1_fn(rep, F, tr, r, seen=seen)
        s1_fn(rep, F, main, r, seen=seen)
    r4["instances"] = S4_COUNT[0]
    r4["analysed"] = r["analysed"]
    return r


# ---------------------------------------------------------------------------
# S2

NONDET = ("rand::", "std::time::", "chrono::Utc::now", "chrono::Local::now", "std::env::", "SystemTime",
          "Instant::now", "thread_rng", "std::process::id")
MUTATION = ("Cell<", "RefCell<", "Mutex<", "RwLock<", "Atomic", "OnceCell", "UnsafeCell")


def s2(rep, F):
    r = rep.rule("S2", "validation is pure and deterministic: every function reachable from any "
                       "validate_network_rules takes &self, reaches no interior mutability, clock, random or "
                       "environment source, and does not iterate a hash container", floor=150)
    cg = CallGraph(F)
    roots = []
    for T in G.message_types(F):
        main, tr = vnr(F, T)
        for b in (main, tr):
            if b is not None:
                roots.append(b["path"])
    reach = cg.reachable(roots)
    r["reachable_fns"] = len(reach)
    for p in sorted(reach):
        b = F.body_by_path.get(p)
        m = F.mir.get(p)
        if b is None:
            continue
        r["instances"] += 1
        r["analysed"] += 1
        ins = b.get("inputs") or []
        if ins and ins[0].startswith("&mut ") and (b.get("impl_self") or "").startswith("messages::"):
            rep.add(Finding("S2", p, "mut-self", "%s takes &mut self and is reachable from validation" % p,
                            b["file"], b["line"]))
        # all MIR bodies belonging to this root (closures)
        for mp, mm in F.mir.items():
            if (mm.get("root") or mp) != p:
                continue
            for bb in mm["bbs"]:
                if bb.get("t") != "call" or "f" not in bb:
                    continue
                f = bb["f"]
                ga = " ".join(bb.get("ga") or [])
                tgt = bb.get("inst") or f
                if any(x in f or x in tgt for x in NONDET):
                    rep.add(Finding("S2", p, "nondeterministic:%s" % f.rsplit("::", 1)[-1],
                                    "%s calls %s: validation result depends on time/randomness/environment"
                                    % (p, f), b["file"], bb.get("ln")))
                if ("HashMap" in ga or "HashSet" in ga or "hash_map" in f or "hash_set" in f or
                        "hash::map" in f or "hash::set" in f) and \
                        re.search(r"(::iter|::into_iter|::drain|::keys|::values|::iter_mut|IntoIterator::into_iter|"
                                  r"::into_keys|::into_values)$", f):
                    recv = (bb.get("ga") or [""])[0]
                    if ("Hash" in recv or "hash" in f) and not _collected_then_sorted(b, bb.get("ln")):
                        rep.add(Finding("S2", p, "hash-iteration",
                                        "%s iterates a hash container (%s): the order of what it produces is "
                                        "not stable between calls" % (p, f), b["file"], bb.get("ln")))
                if any(x in ga or x in f for x in MUTATION):
                    rep.add(Finding("S2", p, "interior-mutability:%s" % f.rsplit("::", 1)[-1],
                                    "%s touches interior-mutable state (%s)" % (p, f), b["file"], bb.get("ln")))
    # message and field types are Freeze
    for a in F.adts.values():
        if a["path"].startswith(("messages::", "fields::", "headers::")) and not a.get("exp"):
            r["instances"] += 1
            if not a.get("freeze", True):
                rep.add(Finding("S2", a["path"], "not-freeze",
                                "%s contains interior mutability: validating may change the message"
                                % a["path"], a["file"], a["line"]))
    return r


def _collected_then_sorted(b, ln):
    """`let mut v: Vec<_> = <hash container>.into_iter().collect(); v.sort();` — the iteration order is erased
    before anything is produced from it"""
    def scan(block):
        stmts = block.get("stmts") or []
        for i, st in enumerate(stmts):
            if st.get("k") == "let" and st.get("ln") == ln and st["pat"].get("k") == "bind" and \
                    (st.get("ty") or "").startswith("std::vec::Vec<") and i + 1 < len(stmts):
                nx = stmts[i + 1]
                if nx.get("k") == "mcall" and nx.get("m") in ("sort", "sort_unstable", "sort_by", "sort_by_key",
                                                             "sort_unstable_by", "sort_unstable_by_key"):
                    rv = peel(nx.get("recv"))
                    if isinstance(rv, dict) and rv.get("k") == "local" and rv.get("id") == st["pat"]["id"]:
                        return True
        return False
    for n in walk(b["body"]):
        if n.get("k") == "block" and scan(n):
            return True
    return False


ONE_TO_ONE = ("iter", "into_iter", "map", "collect", "cloned", "copied", "to_vec", "clone", "to_owned", "as_slice",
              "as_ref", "iter_mut", "enumerate", "rev")
LOSSY = ("filter", "filter_map", "take", "skip", "dedup", "take_while", "skip_while", "step_by", "truncate", "retain",
         "find", "first", "last", "nth", "pop", "drain", "chunks")


def _derived(body, is_source):
    """ids of locals whose value derives from a source call through let-bindings"""
    D = set()
    changed = True
    while changed:
        changed = False
        for n in walk(body):
            if n.get("k") in ("let", "letx") and n.get("init") is not None and n.get("pat", {}).get("k") == "bind":
                if n["pat"]["id"] in D:
                    continue
                if any(is_source(x) or (x.get("k") == "local" and x.get("id") in D) for x in walk(n["init"])):
                    D.add(n["pat"]["id"])
                    changed = True
    return D


def _exits(n, conds, out):
    """(expr, enclosing conditions as (cond node, polarity)) for every value a function body can yield"""
    if not isinstance(n, dict):
        return
    k = n.get("k")
    if k == "block":
        for st in n.get("stmts") or []:
            _rets(st, conds, out)
        if n.get("expr") is not None:
            _exits(n["expr"], conds, out)
        return
    if k == "if":
        _rets(n.get("cond"), conds, out)
        _exits(n.get("then"), conds + [(n.get("cond"), True)], out)
        if n.get("else") is not None:
            _exits(n["else"], conds + [(n.get("cond"), False)], out)
        return
    if k == "match":
        for a in n.get("arms") or []:
            _exits(a.get("body"), conds + [(n, None)], out)
        return
    if k == "ret":
        if n.get("e") is not None:
            _exits(n["e"], conds, out)
        return
    out.append((n, conds))


def _rets(n, conds, out):
    """returns nested inside statements"""
    if isinstance(n, list):
        for x in n:
            _rets(x, conds, out)
        return
    if not isinstance(n, dict):
        return
    k = n.get("k")
    if k == "ret":
        if n.get("e") is not None:
            _exits(n["e"], conds, out)
        return
    if k == "closure":
        return
    if k == "if":
        _rets(n.get("cond"), conds, out)
        _rets(n.get("then"), conds + [(n.get("cond"), True)], out)
        _rets(n.get("else"), conds + [(n.get("cond"), False)], out)
        return
    for kk, v in n.items():
        if kk in ("pat", "pats", "params"):
            continue
        if isinstance(v, (dict, list)):
            _rets(v, conds, out)


def _is_empty_of(e, D):
    e = peel(e)
    if isinstance(e, dict) and e.get("k") == "mcall" and e.get("m") == "is_empty":
        rv = peel(e.get("recv"))
        return isinstance(rv, dict) and rv.get("k") == "local" and rv.get("id") in D
    return False


def _s3_verdict(rep, F, sm):
    src = lambda x: x.get("k") in ("call", "mcall") and (x.get("f") or "").endswith("validate_network_rules")
    D = _derived(sm["body"], src)
    for x in walk(sm["body"]):
        if x.get("k") == "mcall" and x.get("m") in LOSSY:
            root = x
            while isinstance(root, dict) and root.get("k") == "mcall":
                root = peel(root.get("recv"))
            if (isinstance(root, dict) and root.get("k") == "local" and root.get("id") in D) or \
                    any(src(y) for y in walk(x.get("recv"))):
                rep.add(Finding("S3", sm["path"], "error-mapping",
                                "SwiftMessage::validate filters or truncates the error list (%s)" % x["m"],
                                sm["file"], x.get("ln")))
    exits = []
    _exits(sm["body"], [], exits)
    if not exits:
        rep.add(Finding("S3", sm["path"], "is_valid", "no result expression found", sm["file"], sm["line"]))
    for e, conds in exits:
        e0 = peel(e)
        ok = False
        why = "the result is not built from the list returned by validate_network_rules"
        if isinstance(e0, dict) and e0.get("k") == "struct" and (e0.get("path") or e0.get("t") or "").endswith("ValidationResult"):
            fs = {f["name"]: f["e"] for f in e0.get("fields") or []}
            ok = _is_empty_of(fs.get("is_valid"), D) and \
                any(x.get("k") == "local" and x.get("id") in D for x in walk(fs.get("errors")))
            why = "is_valid is not <errors>.is_empty() of the list it returns"
        elif isinstance(e0, dict) and e0.get("k") == "call":
            cal = F.body_by_path.get(callee(e0))
            a = e0.get("args") or []
            if cal is not None and (cal.get("impl_self") or "").endswith("ValidationResult") and "body" in cal:
                ps = [p for p in cal.get("params") or [] if p.get("k") == "bind"]
                if len(a) == 1 and len(ps) == 1 and any(x.get("k") == "local" and x.get("id") in D for x in walk(a[0])):
                    # constructor: { is_valid: p.is_empty(), errors: p }
                    for st in walk(cal["body"]):
                        if st.get("k") == "struct" and (st.get("path") or st.get("t") or "").endswith("ValidationResult"):
                            fs = {f["name"]: f["e"] for f in st.get("fields") or []}
                            ev = peel(fs.get("errors"))
                            if _is_empty_of(fs.get("is_valid"), {ps[0]["id"]}) and isinstance(ev, dict) \
                                    and ev.get("k") == "local" and ev.get("id") == ps[0]["id"]:
                                ok = True
                    why = "the constructor does not derive is_valid as errors.is_empty()"
                elif not a:
                    # ValidationResult::valid(): only where the list is known to be empty
                    for c, pol in conds:
                        if pol is True and _is_empty_of(c, D):
                            ok = True
                        if pol is False and isinstance(peel(c), dict) and peel(c).get("k") == "un" \
                                and peel(c).get("op") == "!" and _is_empty_of(peel(c)["e"], D):
                            ok = True
                    why = "a fixed verdict is returned on a path where the error list is not known to be empty"
        if not ok:
            rep.add(Finding("S3", sm["path"], "is_valid",
                            "SwiftMessage::validate: %s" % why, sm["file"], e.get("ln") or sm["line"]))


def s3(rep, F):
    r = rep.rule("S3", "adapters agree: SwiftMessage::validate and the plugin call validate_network_rules "
                       "with the literal `false`, map errors one-to-one and derive validity as "
                       "errors.is_empty(); ParsedSwiftMessage::validate delegates per variant", floor=32)
    n = 0
    for b in F.bodies:
        if "body" not in b or b.get("exp"):
            continue
        if (b.get("impl_self") or "").startswith("messages::"):
            continue
        for c in walk(b["body"]):
            f = c.get("f") or ""
            if c.get("k") in ("call", "mcall") and f.endswith("::validate_network_rules") and \
                    (f.startswith("messages::") or f.startswith("traits::SwiftMessageBody")):
                a = c.get("args") or []
                flag = a[-1] if a else None
                n += 1
                r["instances"] += 1
                if not (isinstance(flag, dict) and flag.get("k") == "lit" and flag.get("v") is False):
                    rep.add(Finding("S3", b["path"], "flag-literal",
                                    "%s calls validate_network_rules with a stop flag other than the literal "
                                    "false: its verdict is computed from a truncated error list"
                                    % b["path"], b["file"], c.get("ln")))
    if n < 31:
        rep.fail_closed("S3: only %d adapter calls of validate_network_rules found (expected >= 31)" % n)
    # the adapters are generic over SwiftMessageBody: a type whose rules live in an inherent method only is
    # validated by the trait default (no rules) there, and by its rules in the plugin
    for T in G.message_types(F):
        ih = F.fn(T, "validate_network_rules", None)
        tr = F.fn(T, "validate_network_rules", "SwiftMessageBody")
        r["instances"] += 1
        if ih is not None and tr is None:
            rep.add(Finding("S3", ih["path"], "no-trait-method",
                            "%s implements validate_network_rules as an inherent method only: "
                            "SwiftMessage::validate and ParsedSwiftMessage::validate reach the trait default and "
                            "report every message of this type as valid, the plugin does not" % G.short(T),
                            ih["file"], ih["line"]))
    # validity = errors.is_empty(), on every exit
    sm = F.body_by_path.get("swift_message::SwiftMessage::<T>::validate")
    if sm is None:
        rep.fail_closed("S3: SwiftMessage::validate not found")
    else:
        r["instances"] += 1
        _s3_verdict(rep, F, sm)
    pv = F.body_by_path.get("plugin::validate::Validate::validate_mt_message")
    if pv is None:
        rep.fail_closed("S3: plugin validate_mt_message not found")
    else:
        r["instances"] += 1
        # the vector that receives every validation error of the Ok arm: pushed to inside a `for` over a local
        # derived from the plugin's validate_network_rules call
        D = _derived(pv["body"], lambda x: x.get("k") in ("call", "mcall") and
                     (x.get("f") or "").endswith("validate_network_rules"))
        sinks = set()
        for n2 in walk(pv["body"]):
            if n2.get("k") == "for":
                it = [x for x in walk(n2.get("iter")) if x.get("k") == "local" and x.get("id") in D]
                if it:
                    for x in walk(n2.get("body")):
                        if x.get("k") == "mcall" and x.get("m") == "push":
                            rv = peel(x.get("recv"))
                            if isinstance(rv, dict) and rv.get("k") == "local":
                                sinks.add(rv["id"])
            # the same transfer written as sink.extend(<errors>.iter().map(..)) / sink.append(..)
            if n2.get("k") == "mcall" and n2.get("m") in ("extend", "append", "extend_from_slice") and n2.get("args"):
                if any(x.get("k") == "local" and x.get("id") in D for x in walk(n2["args"])):
                    rv = peel(n2.get("recv"))
                    if isinstance(rv, dict) and rv.get("k") == "local":
                        sinks.add(rv["id"])
        # the collected list reaches the verdict and the output as collected: nothing is taken out of it or
        # reordered on the way (the typed API and the wrapper report every finding, in evaluation order)
        for n2 in walk(pv["body"]):
            if n2.get("k") == "mcall" and n2.get("m") in REORDER + ("dedup_by_key", "dedup_by", "drain", "split_off"):
                rv = peel(n2.get("recv"))
                if isinstance(rv, dict) and rv.get("k") == "local" and rv.get("id") in sinks:
                    rep.add(Finding("S3", pv["path"], "sink:%s" % n2["m"],
                                    "the plugin applies %s() to the list of findings it collected: it reports "
                                    "fewer / differently ordered findings than validate_network_rules(false), "
                                    "SwiftMessage::validate and the wrapper for the same message" % n2["m"],
                                    pv["file"], n2.get("ln")))
        ok = False
        for s2 in walk(pv["body"]):
            if s2.get("k") == "let" and s2.get("init") is not None:
                e = peel(s2["init"])
                if isinstance(e, dict) and e.get("k") == "mcall" and e.get("m") == "is_empty":
                    rv = peel(e.get("recv"))
                    if isinstance(rv, dict) and rv.get("k") == "local" and rv.get("id") in sinks:
                        ok = True
        if not ok:
            rep.add(Finding("S3", pv["path"], "is_valid", "plugin verdict is not <collected errors>.is_empty()",
                            pv["file"], pv["line"]))
    # wrapper: each arm calls SwiftMessage::validate on its payload
    wv = F.body_by_path.get("parsed_message::ParsedSwiftMessage::validate")
    if wv is None:
        rep.fail_closed("S3: ParsedSwiftMessage::validate not found")
    else:
        for n2 in walk(wv["body"]):
            if n2.get("k") == "match":
                for a in n2["arms"]:
                    r["instances"] += 1
                    body = a["body"]
                    c = peel(body)
                    if not (isinstance(c, dict) and c.get("k") == "mcall" and
                            (c.get("f") or "").endswith("SwiftMessage::<T>::validate")):
                        rep.add(Finding("S3", wv["path"], "arm", "wrapper arm does not delegate to "
                                        "SwiftMessage::validate", wv["file"], n2.get("ln")))
    return r
