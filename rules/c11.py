"""C11 — dates and times: calendar-valid only, one meaning everywhere, round-trip stable."""
from .common import Report
from . import emit
from . import accept
from . import numdate
from .fieldtab import FieldTab

LEVEL = "other"
EXPLANATION = ("The exhaustive 10^6-string claim is reduced statically to one function: (T1) calendar dates are "
               "constructed from text only in swift_utils::parse_date_yymmdd/yyyymmdd and no other function does "
               "century arithmetic; (T2) every field type storing a chrono date/time obtains it from those "
               "validators and renders it with %y%m%d / %H%M, and date components kept as text are validated; "
               "(T3) hand-written JSON date codecs use one pattern on both sides and no private pivot. "
               "parse_date_yymmdd + chrono themselves are read, not proved.")
ASSUMPTIONS = ["chrono::NaiveDate::from_ymd_opt rejects impossible dates"]


def run(F, tier):
    rep = Report("C11")
    ft = FieldTab(F)
    r = numdate.t1(rep, F)
    numdate.t2(rep, F, ft)
    numdate.strftime_census(rep, F)
    numdate.t4(rep, F)
    rep.sample({"pivot_in_parse_date_yymmdd": r.get("pivot")})
    accept.u6(rep, F, "date")
    accept.u7(rep, F, "date")
    emit.e1(rep, F, "date")
    return rep
