"""A3: field-type table from the 114 `impl SwiftField`."""
import re
from .facts import walk, is_call, lit_val, peel, place, callee

TAG_RE = re.compile(r"^:(\d{2}[A-Z]?):")


class FieldTab:
    def __init__(self, F):
        self.F = F
        self.types = sorted(i["self"] for i in F.impls_of("traits::SwiftField"))
        self._emit = {}

    def is_enum(self, t):
        a = self.F.adts.get(t)
        return bool(a and a["kind"] == "enum")

    def variants(self, t):
        """[(variant name, payload type or None)]"""
        a = self.F.adts.get(t)
        if not a:
            return []
        out = []
        for v in a["variants"]:
            pt = v["fields"][0]["ty"] if v["fields"] else None
            out.append((v["name"], pt))
        return out

    def fn(self, t, name):
        return self.F.fn(t, name, "SwiftField")

    def emitted(self, t, _seen=None):
        """set of tags (e.g. '59A') that t's to_swift_string can emit, with their nodes"""
        if t in self._emit:
            return self._emit[t]
        _seen = _seen or set()
        if t in _seen:
            return set()
        _seen.add(t)
        b = self.fn(t, "to_swift_string")
        tags = set()
        if b is None or "body" not in b:
            self._emit[t] = tags
            return tags
        for n in walk(b["body"]):
            k = n.get("k")
            if k == "lit" and n.get("t") == "str":
                m = TAG_RE.match(n["v"])
                if m:
                    tags.add(m.group(1))
            elif k == "fmt":
                p0 = n["pieces"][0] if n["pieces"] else None
                if isinstance(p0, str):
                    m = TAG_RE.match(p0)
                    if m:
                        tags.add(m.group(1))
            elif k in ("call", "mcall") and (n.get("f") or "").endswith("SwiftField::to_swift_string"):
                inst = n.get("inst") or ""
                m = re.match(r"^<(.*) as traits::SwiftField>::to_swift_string$", inst)
                if m and m.group(1) != t:
                    tags |= self.emitted(m.group(1), _seen)
            elif k in ("call", "mcall"):
                # helper fns of the same module taking a tag / building the string
                cal = callee(n)
                hb = self.F.body_by_path.get(cal)
                if hb is not None and "body" in hb and not hb.get("exp") and hb is not b \
                        and "fields::" in hb["path"] and hb["path"] not in _seen:
                    _seen.add(hb["path"])
                    for x in walk(hb["body"]):
                        if x.get("k") == "lit" and x.get("t") == "str":
                            mm = TAG_RE.match(x["v"])
                            if mm:
                                tags.add(mm.group(1))
                        elif x.get("k") == "fmt" and x["pieces"] and isinstance(x["pieces"][0], str):
                            mm = TAG_RE.match(x["pieces"][0])
                            if mm:
                                tags.add(mm.group(1))
        self._emit[t] = tags
        return tags

    def can_succeed(self, t):
        """false iff t::parse has no Ok(..) constructor at all (e.g. Field60::parse always errs)"""
        b = self.fn(t, "parse")
        if b is None or "body" not in b:
            return True
        for n in walk(b["body"]):
            if n.get("k") == "call" and n.get("ctor") and (n.get("f") or "").endswith("::Ok"):
                return True
            if n.get("k") in ("call", "mcall") and not n.get("ctor") and "Result" in (n.get("t") or "") \
                    and n.get("k") == "call" and (n.get("f") or "").startswith("fields::"):
                # delegation to a helper returning Result<Self>
                if (n.get("t") or "").startswith("std::result::Result<" + t):
                    return True
        return False

    def variant_emits(self, t):
        """for an option enum: {variant name: set(tags)} via the payload type"""
        out = {}
        for vn, pt in self.variants(t):
            out[vn] = self.emitted(pt) if pt else set()
        return out

    def struct_fields(self, t):
        a = self.F.adts.get(t)
        if not a or a["kind"] != "struct":
            return []
        return [(f["name"], f["ty"]) for f in a["variants"][0]["fields"]]

    def reads_of_self(self, body):
        """names of self.<field> read in a body"""
        out = set()
        for n in walk(body["body"]):
            if n.get("k") == "field":
                e = n.get("e")
                if isinstance(e, dict) and e.get("k") == "local" and e.get("name") == "self":
                    out.add(n["name"])
        return out
