"""Shared plumbing: findings, floors, evidence."""


class Finding:
    def __init__(self, rule, fn, instance, msg, file=None, line=None, ordinal=0, detail=None):
        self.rule = rule
        self.fn = fn
        self.instance = instance
        self.ordinal = ordinal
        try:
            from .facts import readable
            msg = readable(msg)
        except Exception:
            pass
        self.msg = msg
        self.file = file
        self.line = line
        self.detail = detail or {}

    @property
    def key(self):
        return "%s|%s|%s|%d" % (self.rule, self.fn, self.instance, self.ordinal)

    def to_json(self):
        return {"key": self.key, "rule": self.rule, "fn": self.fn, "instance": self.instance,
                "file": self.file, "line": self.line, "msg": self.msg, "detail": self.detail}


class Report:
    """what one property check produced"""

    def __init__(self, prop):
        self.prop = prop
        self.findings = []
        self.rules = {}        # rule id -> {"analysed":.., "instances":.., "floor":.., "text":..}
        self.samples = []
        self.notes = []
        self.programs = 0
        self.cells = 0
        self.errors = []       # fail-closed conditions (missing anchors / floors)

    def rule(self, rid, text, analysed=0, instances=0, floor=0, **extra):
        r = self.rules.setdefault(rid, {"text": text, "analysed": 0, "instances": 0, "floor": floor,
                                        "findings": 0})
        r["analysed"] += analysed
        r["instances"] += instances
        r["floor"] = max(r["floor"], floor)
        r.update(extra)
        return r

    def add(self, finding):
        # ordinal: make keys unique per (rule, fn, instance)
        base = (finding.rule, finding.fn, finding.instance)
        n = sum(1 for f in self.findings if (f.rule, f.fn, f.instance) == base)
        finding.ordinal = n
        self.findings.append(finding)
        if finding.rule in self.rules:
            self.rules[finding.rule]["findings"] += 1

    def fail_closed(self, msg):
        self.errors.append(msg)

    def check_floors(self):
        for rid, r in self.rules.items():
            if r["instances"] < r["floor"]:
                self.fail_closed("rule %s evaluated %d instances, below the confirmed floor %d "
                                 "(anchor lost or extractor blind)" % (rid, r["instances"], r["floor"]))

    def sample(self, s):
        if len(self.samples) < 12:
            self.samples.append(s)


def dedupe(seq):
    seen = set()
    out = []
    for x in seq:
        if x not in seen:
            seen.add(x)
            out.append(x)
    return out
