"""V4: guard formulas of network-rule error sites compared, by logical equivalence, with the reviewed
reference spec/rule_formulas.json (V4) and between sibling implementations of one rule (V4s)."""
import json
import os
import re
from .common import Finding
from . import guards, decide, grammar as G

SPEC = os.path.join(os.path.dirname(os.path.dirname(os.path.abspath(__file__))), "spec", "rule_formulas.json")


def current(F, tms):
    out = {}
    for tm in tms:
        sites = guards.extract_type(F, tm)
        d = {}
        for s in sites:
            d.setdefault(s["code"] or "?", []).append(s)
        out[tm.name] = d
    return out


_V = []


def _vocab(spec):
    if not _V:
        texts = []
        for t, codes in spec.items():
            for code, lst in codes.items():
                for x in lst:
                    texts.extend(guards.atoms_of(guards.from_json(x["f"])))
        _V.append(decide.vocabulary(texts))
    return _V[0]


def v4(rep, F, tms):
    r = rep.rule("V4", "guard = reviewed reference: per (message type, error code) every error site's path "
                       "condition (formula over presence / literal-equality / table-membership / threshold / "
                       "component-equality atoms) is logically equivalent (truth table) to one formula of the "
                       "reference, and every reference formula is still implemented", floor=150)
    if not os.path.exists(SPEC):
        rep.fail_closed("V4: spec/rule_formulas.json missing")
        return r
    spec = json.load(open(SPEC))["types"]
    cur = current(F, tms)
    for tname in sorted(set(spec) | set(cur)):
        sc = spec.get(tname, {})
        cc = cur.get(tname, {})
        for code in sorted(set(sc) | set(cc)):
            sp = [guards.from_json(x["f"]) for x in sc.get(code, [])]
            cs = cc.get(code, [])
            r["instances"] += max(len(sp), len(cs))
            if code not in sc:
                rep.notes.append("V4: %s emits code %s which the reference does not list (new rule? not judged)"
                                 % (tname, code))
                continue
            used = set()
            unmatched_cur = []
            for s in cs:
                hit = None
                undec = False
                for i, g in enumerate(sp):
                    if i in used:
                        continue
                    eq, wit = guards.equivalent(s["f"], g)
                    if eq is None:
                        undec = True
                    if eq:
                        hit = i
                        break
                if hit is None:
                    unmatched_cur.append((s, undec))
                else:
                    used.add(hit)
            missing = [i for i in range(len(sp)) if i not in used]
            # a current formula that cannot be *proved* different from a still unmatched reference formula (its
            # differing atoms are opaque / unresolved) is undecided: note, and that reference counts as matched
            vocab = _vocab(spec)
            still = []
            for s, undec in unmatched_cur:
                und = None
                rw, who = decide.rewritten(F, s["fn"])
                if rw and missing:
                    und = missing[0]
                for i in (missing if und is None else []):
                    verdict, info = decide.definite_difference(s["f"], sp[i], vocab)
                    if verdict in ("undecided", "same"):
                        und = i
                        break
                if und is not None:
                    missing.remove(und)
                    r["undecided"] = r.get("undecided", 0) + 1
                    rep.notes.append("V4: %s %s in %s: condition differs from the reference only in terms the "
                                     "extractor cannot resolve: undecided, not reported" % (tname, code, s["fn"]))
                else:
                    still.append((s, undec))
            unmatched_cur = still
            for s, undec in unmatched_cur:
                # nearest reference formula for the witness
                wtxt = ""
                for i in missing:
                    eq, wit = guards.equivalent(s["f"], sp[i])
                    if eq is False and wit is not None:
                        wtxt = "; differs from the reference `%s` e.g. when %s" % (
                            guards.show(sp[i])[:160], ", ".join("%s=%s" % (k, "T" if v else "F") for k, v in sorted(wit.items()))[:300])
                        break
                rep.add(Finding("V4", s["fn"], "%s:%s:changed" % (tname, code),
                                "%s error %s is now raised when `%s`, which is not equivalent to any reference "
                                "condition of this rule%s" % (tname, code, guards.show(s["f"])[:200], wtxt),
                                s["file"], s["ln"]))
            if len(missing) > len(unmatched_cur):
                for i in missing[len(unmatched_cur):]:
                    # the rule function of the reference entry, if it was restructured, may raise the code through
                    # a shape the extractor does not follow (shared helper, table of cases): undecided
                    rfn = (sc.get(code, [{}] * (i + 1))[i] or {}).get("fn")
                    cand = [b_ for b_ in F.bodies if b_.get("name") == rfn and (b_.get("impl_self") or "").endswith("::" + tname)]
                    if rfn and (not cand or any(decide.rewritten(F, b_["path"])[0] for b_ in cand)):
                        r["undecided"] = r.get("undecided", 0) + 1
                        rep.notes.append("V4: %s %s: the rule function %s was restructured or is gone; whether the "
                                         "reference condition is still enforced is undecided" % (tname, code, rfn))
                        continue
                    fn = cs[0]["fn"] if cs else tname
                    rep.add(Finding("V4", fn, "%s:%s:missing" % (tname, code),
                                    "%s no longer raises %s under the reference condition `%s`: the documented "
                                    "rule (or one of its cases) is not enforced" % (tname, code, guards.show(sp[i])[:200]),
                                    cs[0]["file"] if cs else None, cs[0]["ln"] if cs else None))
    return r


def _norm(f, tname):
    """rename atoms: type prefix -> A, sequence vector -> B"""
    def ren(a):
        a = re.sub(r"\b%s\.(transactions|cheques|sequence|rate_changes|statement_lines)\[" % tname, "B[", a)
        a = a.replace(tname + ".", "A.")
        return a
    t = f[0]
    if t == "atom":
        return ("atom", ren(f[1]))
    if t in ("T", "F"):
        return f
    return tuple([t] + [_norm(x, tname) for x in f[1:]])


SIBLINGS = [
    ("56a=>57a", [("MT103", "C81"), ("MT202", "C81"), ("MT205", "C81")]),
    ("max-10-sequences", [("MT110", "T10"), ("MT204", "T10"), ("MT210", "T10")]),
    ("33B/36 exchange rate", [("MT104", "D75"), ("MT107", "D75")]),
    ("A/B mutual exclusivity", [("MT104", "D73"), ("MT107", "D73")]),
    ("21E needs creditor", [("MT104", "D77"), ("MT107", "D77")]),
    ("charges B<->C", [("MT104", "D79"), ("MT107", "D79")]),
    ("33B=32B amounts", [("MT104", "D21"), ("MT107", "D21")]),
    ("RTND <-> 72", [("MT104", "C82"), ("MT107", "C82")]),
    ("50 xor 52", [("MT210", "C06")]),
]


def v4s(rep, F, tms):
    r = rep.rule("V4s", "sibling implementations of one rule are equivalent: after renaming the type prefix, the "
                        "disjunction of the path conditions raising the code is logically equivalent across the "
                        "types that implement the same documented rule (no reference needed)", floor=8)
    cur = current(F, tms)
    for label, members in SIBLINGS:
        forms = []
        for tname, code in members:
            ss = cur.get(tname, {}).get(code, [])
            if not ss:
                continue
            f = guards.FALSE
            for s in ss:
                f = guards.f_or(f, _norm(s["f"], tname))
            # sequence vector length names differ (transactions / cheques): normalise len(A.x) to len(B)
            forms.append((tname, code, f, ss[0]))
        for (ta, ca, fa, sa), (tb, cb, fb, sb) in zip(forms, forms[1:]):
            r["instances"] += 1
            fa2, fb2 = _len_norm(fa), _len_norm(fb)
            eq, wit = guards.equivalent(fa2, fb2)
            if eq is False:
                rep.add(Finding("V4s", sb["fn"], "%s:%s~%s:%s" % (ta, ca, tb, cb),
                                "rule '%s': %s raises %s under `%s` but its sibling %s under `%s` (differ e.g. when "
                                "%s)" % (label, ta, ca, guards.show(fa2)[:150], tb, guards.show(fb2)[:150],
                                         ", ".join("%s=%s" % (k, "T" if v else "F") for k, v in sorted((wit or {}).items()))[:200]),
                                sb["file"], sb["ln"]))
    return r


def _len_norm(f):
    t = f[0]
    if t == "atom":
        return ("atom", re.sub(r"len\(A\.(transactions|cheques|sequence|rate_changes)\)", "len(B)", f[1]))
    if t in ("T", "F"):
        return f
    return tuple([t] + [_len_norm(x) for x in f[1:]])


# ---------------------------------------------------------------------------
# V3: code tables

TABLES = os.path.join(os.path.dirname(SPEC), "code_tables.json")


def table_value(F, b):
    """canonical value of a const table body: list of strings, or list of [str, [str..]] pairs; None otherwise"""
    from .facts import peel, lit_val
    x = b["body"]
    while isinstance(x, dict) and x.get("k") == "block" and not x.get("stmts"):
        x = x.get("expr")
    x = peel(x)
    if not isinstance(x, dict) or x.get("k") != "array":
        return None
    out = []
    for e in x["es"]:
        e = peel(e)
        v = lit_val(e)
        if isinstance(v, str):
            out.append(v)
        elif isinstance(e, dict) and e.get("k") == "tup" and len(e["es"]) == 2:
            a = lit_val(peel(e["es"][0]))
            inner = peel(e["es"][1])
            if isinstance(a, str) and isinstance(inner, dict) and inner.get("k") == "array":
                out.append([a, sorted(lit_val(peel(q)) for q in inner["es"])])
            else:
                return None
        else:
            return None
    return out


def order_sensitive(F, path):
    from .facts import walk
    for b in F.bodies:
        if "body" not in b or b.get("exp"):
            continue
        for n in walk(b["body"]):
            if n.get("k") == "mcall" and n.get("m") in ("position", "enumerate", "windows", "zip", "binary_search"):
                for x in walk(n.get("recv")):
                    if x.get("k") == "def" and x.get("def") == path:
                        return True
            if n.get("k") == "index":
                for x in walk(n.get("e")):
                    if x.get("k") == "def" and x.get("def") == path:
                        return True
    return False


def current_tables(F):
    out = {}
    for b in F.bodies:
        if not b["kind"].startswith("AssocConst") or "body" not in b or b.get("exp"):
            continue
        if not (b.get("impl_self") or "").startswith("messages::"):
            continue
        v = table_value(F, b)
        if v is None:
            continue
        key = "%s::%s" % (G.short(b["impl_self"]), b["name"])
        out[key] = {"ordered": order_sensitive(F, b["path"]), "value": v, "file": b["file"], "line": b["line"],
                    "path": b["path"]}
    out.update(match_tables(F))
    return out


def match_tables(F):
    """functions that are one `match <string parameter> { "A" | "B" => x, .., _ => d }`: a table literal -> value"""
    out = {}
    for b in F.bodies:
        if "body" not in b or b.get("exp") or b["kind"] not in ("Fn", "AssocFn"):
            continue
        if not b["path"].startswith(("fields::", "parser::", "messages::", "headers::", "utils::")):
            continue
        body = b["body"]
        while isinstance(body, dict) and body.get("k") == "block" and not body.get("stmts") and body.get("expr"):
            body = body["expr"]
        if not (isinstance(body, dict) and body.get("k") == "match" and len(body.get("arms") or []) >= 3):
            continue
        rows = []
        ok = True
        for a in body["arms"]:
            p = a["pat"]
            ps = p.get("pats") if p.get("k") == "por" else [p]
            val = a.get("body")
            while isinstance(val, dict) and val.get("k") == "block" and not val.get("stmts") and val.get("expr"):
                val = val["expr"]
            vt = None
            if isinstance(val, dict) and val.get("k") == "lit":
                vt = str(val.get("v"))
            elif isinstance(val, dict) and val.get("k") in ("def", "call") and not [x for x in guards_walk(val) if x.get("k") == "local"]:
                vt = guards.text(val)
            if vt is None:
                ok = False
                break
            for q in ps:
                if q.get("k") == "plit" and isinstance(q.get("v"), str):
                    rows.append("%s=>%s" % (q["v"], vt))
                elif q.get("k") in ("_", "bind"):
                    rows.append("_=>%s" % vt)
                else:
                    ok = False
        if ok and len(rows) >= 4:
            out["fn:" + b["path"]] = {"ordered": False, "value": sorted(rows), "file": b["file"], "line": b["line"],
                                      "path": b["path"]}
    return out


def guards_walk(n):
    from .facts import walk
    return walk(n)


def canon_table(t):
    v = t["value"]
    if t.get("ordered"):
        return json.dumps(v)
    return json.dumps(sorted(v, key=lambda x: json.dumps(x)))


def v3(rep, F, only=None):
    r = rep.rule("V3", "code tables = reviewed reference: every code table of a message type (allowed codes, "
                       "forbidden combinations, prescribed code order) equals the reference table; tables only used "
                       "for membership are compared as sets, tables used with position()/indexing as sequences",
                 floor=14)
    if not os.path.exists(TABLES):
        rep.fail_closed("V3: spec/code_tables.json missing")
        return r
    spec = json.load(open(TABLES))["tables"]
    cur = current_tables(F)
    if only is not None:
        r["floor"] = 1
    for k in sorted(set(spec) | set(cur)):
        if only is not None and not re.search(only, k):
            continue
        r["instances"] += 1
        if k not in cur:
            if k.startswith("fn:"):
                rep.notes.append("V3: %s is no longer a literal match table (rewritten?): not judged" % k)
                continue
            rep.add(Finding("V3", k, "missing", "code table %s of the reference no longer exists" % k))
            continue
        if k not in spec:
            rep.notes.append("V3: table %s is not in the reference (new table? not judged)" % k)
            continue
        c = cur[k]
        sref = dict(spec[k])
        sref["ordered"] = sref.get("ordered") or c["ordered"]
        c2 = dict(c)
        c2["ordered"] = sref["ordered"]
        if canon_table(c2) != canon_table(sref):
            rep.add(Finding("V3", c["path"], "changed",
                            "code table %s is %s; the reviewed reference is %s (%s comparison)"
                            % (k, json.dumps(c["value"])[:300], json.dumps(spec[k]["value"])[:300],
                               "order-sensitive" if sref["ordered"] else "set"), c["file"], c["line"]))
    return r
