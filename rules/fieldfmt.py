"""U-rules: character classes, two-sided lengths, silent truncation in field and header parsers."""
import re
from .common import Finding
from .facts import walk, is_call, lit_val, peel, callee
from . import grammar as G
from .callgraph import CallGraph

UNICODE_PREDS = ("is_alphanumeric", "is_alphabetic", "is_numeric", "is_uppercase", "is_lowercase")


def parse_roots(F):
    roots = []
    for b in F.bodies:
        if b.get("exp") or "body" not in b:
            continue
        if (b.get("impl_trait") or "").endswith("traits::SwiftField") and b["name"] in ("parse", "parse_with_variant"):
            roots.append(b["path"])
        if b["path"].startswith("headers::") and b["name"] == "parse":
            roots.append(b["path"])
        if (b.get("impl_trait") or "").endswith("traits::SwiftMessageBody") and b["name"] == "parse_from_block4":
            roots.append(b["path"])
    return roots


def u1(rep, F):
    r = rep.rule("U1", "ASCII predicates only: code reachable from field parsers, header parsers and the "
                       "message parser tests characters with char::is_ascii_* only; a Unicode-aware "
                       "char::{is_alphanumeric,is_alphabetic,is_numeric,is_uppercase,is_lowercase} that is not "
                       "conjoined with is_ascii() accepts characters outside the SWIFT character sets",
                 floor=30)
    cg = CallGraph(F)
    reach = cg.reachable(parse_roots(F))
    r["reachable_fns"] = len(reach)

    def scan(b):
        def rec(n, conj):
            if isinstance(n, list):
                for x in n:
                    rec(x, conj)
                return
            if not isinstance(n, dict):
                return
            k = n.get("k")
            if k == "bin" and n.get("op") == "&&":
                rec(n["l"], conj + [n["r"]])
                rec(n["r"], conj + [n["l"]])
                return
            if k in ("mcall", "call"):
                f = n.get("f") or ""
                nm = f.rsplit("::", 1)[-1]
                if ("char::methods" in f or "<impl char>" in f) and nm.startswith("is_"):
                    r["instances"] += 1
                    if nm in UNICODE_PREDS:
                        ascii_guard = False
                        for o in conj:
                            for x in walk(o):
                                if x.get("k") in ("mcall", "call") and \
                                        (x.get("f") or "").rsplit("::", 1)[-1].startswith("is_ascii"):
                                    ascii_guard = True
                        if not ascii_guard:
                            rep.add(Finding("U1", b["path"], nm,
                                            "%s tests characters with the Unicode-aware char::%s: non-ASCII "
                                            "letters/digits (e.g. 'é', '中', '²') satisfy a SWIFT character class "
                                            "here" % (b["path"], nm), b["file"], n.get("ln")))
            if k == "def" and "char::methods" in (n.get("def") or ""):
                nm = n["def"].rsplit("::", 1)[-1]
                r["instances"] += 1
                if nm in UNICODE_PREDS:
                    rep.add(Finding("U1", b["path"], nm + ":fn-ref",
                                    "%s passes the Unicode-aware char::%s as a predicate" % (b["path"], nm),
                                    b["file"], b["line"]))
            for key, v in n.items():
                if isinstance(v, (dict, list)) and key not in ("pat", "pats"):
                    rec(v, conj if k in ("un", "block", "closure", "mcall", "call", "ref") else [])
        rec(b["body"], [])

    for p in sorted(reach):
        b = F.body_by_path.get(p)
        if b is None or "body" not in b or b.get("exp"):
            continue
        r["analysed"] += 1
        scan(b)
    return r


def _ranges_on(body, pid):
    """constant-range slices taken directly from the local pid, and every other use of it"""
    slices, lens, other, tails = [], [], [], []

    def rec(n, parent):
        if isinstance(n, list):
            for x in n:
                rec(x, parent)
            return
        if not isinstance(n, dict):
            return
        k = n.get("k")
        if k == "index":
            base = peel(n["e"])
            if isinstance(base, dict) and base.get("k") == "local" and base.get("id") == pid:
                i = n["i"]
                if i.get("k") == "struct":
                    path = i.get("path") or i.get("t") or ""
                    fs = {f["name"]: lit_val(f["e"]) for f in i.get("fields") or []}
                    if path.endswith("ops::Range") and isinstance(fs.get("end"), int):
                        slices.append((fs.get("start"), fs["end"], n.get("ln")))
                    elif path.endswith("RangeTo") and isinstance(fs.get("end"), int):
                        slices.append((0, fs["end"], n.get("ln")))
                    elif path.endswith("RangeInclusive") or path.endswith("RangeToInclusive"):
                        slices.append((fs.get("start"), None, n.get("ln")))
                        other.append(("slice", n.get("ln")))
                    else:
                        tails.append(n.get("ln"))
                else:
                    other.append(("index", n.get("ln")))
                rec(n["i"], n)
                return
        if k == "mcall" and n.get("m") == "len":
            base = peel(n["recv"])
            if isinstance(base, dict) and base.get("k") == "local" and base.get("id") == pid:
                lens.append(parent)
                return
        if k == "local" and n.get("id") == pid:
            other.append(("use", None))
            return
        for key, v in n.items():
            if isinstance(v, (dict, list)) and key not in ("pat", "pats"):
                rec(v, n)

    rec(body, None)
    return slices, lens, other, tails


def u3(rep, F, scope):
    """scope: 'fields' or 'headers'"""
    r = rep.rule("U3", "two-sided length: a parser that reads its input only through constant-offset slices "
                       "(largest bound K, no open-ended tail, no other use of the input) has a length test "
                       "that excludes len > K; otherwise text after the last component is silently ignored",
                 floor=3 if scope == "headers" else 10)
    for b in F.bodies:
        if b.get("exp") or "body" not in b:
            continue
        if scope == "fields":
            if not ((b.get("impl_trait") or "").endswith("traits::SwiftField") and b["name"] == "parse"):
                continue
        else:
            if not (b["path"].startswith("headers::") and b["name"] == "parse" and
                    "&str" in " ".join(b.get("inputs") or [])):
                continue
        ps = b.get("params") or []
        if not ps or ps[0].get("k") != "bind":
            continue
        pid = ps[0]["id"]
        r["instances"] += 1
        slices, lens, other, tails = _ranges_on(b["body"], pid)
        if not slices or other or tails:
            continue
        r["analysed"] += 1
        K = max(e for _, e, _ in slices if e is not None)
        upper = False
        for cmpn in lens:
            if not isinstance(cmpn, dict) or cmpn.get("k") != "bin":
                continue
            op = cmpn.get("op")
            lhs_len = peel(cmpn["l"]).get("k") == "mcall" if isinstance(peel(cmpn["l"]), dict) else False
            c = lit_val(cmpn["r"]) if lhs_len else lit_val(cmpn["l"])
            if not isinstance(c, int):
                continue
            if not lhs_len:
                op = {"<": ">", ">": "<", "<=": ">=", ">=": "<="}.get(op, op)
            if op == "!=" and c >= K:
                upper = True
            if op == ">" and c >= K - 0 and c <= K:
                upper = True
            if op == ">=" and c == K + 1:
                upper = True
            if op == "==" and c >= K:
                upper = True      # `if len == K { .. } else { Err }` shapes
        if not upper:
            rep.add(Finding("U3", b["path"], "len>%d" % K,
                            "%s reads its input only through fixed slices up to byte %d and never rejects a "
                            "longer input: characters after position %d are accepted and dropped"
                            % (b["path"], K, K), b["file"], b["line"]))
    return r


def u4(rep, F):
    r = rep.rule("U4", "no silent truncation: a field parser does not cut its input with take(n)/truncate(n) "
                       "unless it also rejects inputs that exceed n", floor=3)
    for b in F.bodies:
        if b.get("exp") or "body" not in b:
            continue
        if not ((b.get("impl_trait") or "").endswith("traits::SwiftField") and b["name"] == "parse"):
            continue
        r["analysed"] += 1
        ps = b.get("params") or []
        pid = ps[0]["id"] if ps and ps[0].get("k") == "bind" else None
        # locals that hold (parts of) the input: `let lines: Vec<&str> = input.lines().collect()`
        from_input = {pid}
        for _ in range(3):
            for n in walk(b["body"]):
                if n.get("k") == "let" and n.get("init") is not None and \
                        any(x.get("k") == "local" and x.get("id") in from_input for x in walk(n["init"])):
                    def _b(p_):
                        if isinstance(p_, dict):
                            if p_.get("k") == "bind":
                                yield p_
                            for q_ in p_.get("pats") or []:
                                yield from _b(q_)
                            if p_.get("pat"):
                                yield from _b(p_["pat"])
                    for q in _b(n.get("pat")):
                        from_input.add(q["id"])
        for n in walk(b["body"]):
            if n.get("k") == "mcall" and n.get("m") in ("take", "truncate") and (n.get("args") or []):
                lim = lit_val(n["args"][0])
                if not isinstance(lim, int):
                    continue
                root = [x for x in walk(n["recv"]) if x.get("k") == "local"]
                r["instances"] += 1
                # a count check against the same limit elsewhere in the function
                checked = False
                for c in walk(b["body"]):
                    if c.get("k") == "bin" and c.get("op") in (">", ">=") and lit_val(c.get("r")) in (lim, lim + 1) \
                            and any(x.get("k") == "mcall" and x.get("m") in ("count", "len") for x in walk(c["l"])):
                        # the counted thing must not be the truncated collection itself
                        checked = True
                if not checked and root and any(x.get("id") in from_input for x in root):
                    rep.add(Finding("U4", b["path"], "%s(%d)" % (n["m"], lim),
                                    "%s cuts its input with .%s(%d) and never rejects longer input: surplus "
                                    "lines/characters are accepted and dropped" % (b["path"], n["m"], lim),
                                    b["file"], n.get("ln")))
        # the same cut written as a loop: `for x in <input> { if out.len() >= n { break } .. out.push(..) }`
        for n in walk(b["body"]):
            if n.get("k") != "for":
                continue
            if not any(x.get("k") == "local" and x.get("id") == pid for x in walk(n.get("iter"))):
                continue
            for c in walk(n["body"]):
                if c.get("k") != "if" or c.get("else") is not None:
                    continue
                t = c.get("then")
                inner = (t.get("stmts") or []) + ([t["expr"]] if t.get("expr") is not None else []) \
                    if isinstance(t, dict) and t.get("k") == "block" else [t]
                inner = [x.get("e") if isinstance(x, dict) and x.get("k") in ("semi", "stmt") and x.get("e") else x
                         for x in inner]
                if not (len(inner) == 1 and isinstance(inner[0], dict) and inner[0].get("k") == "break"):
                    continue
                cc = c.get("cond")
                while isinstance(cc, dict) and cc.get("k") == "block" and not cc.get("stmts"):
                    cc = cc.get("expr")
                if not (isinstance(cc, dict) and cc.get("k") == "bin" and cc.get("op") in (">", ">=")):
                    continue
                lim = lit_val(cc.get("r"))
                l_ = cc.get("l")
                if not isinstance(lim, int) or isinstance(lim, bool):
                    continue
                if not (isinstance(l_, dict) and l_.get("k") == "mcall" and l_.get("m") == "len"):
                    continue
                if cc["op"] == ">":
                    lim += 1
                r["instances"] += 1
                checked = False
                for c2 in walk(b["body"]):
                    if c2 is not cc and c2.get("k") == "bin" and c2.get("op") in (">", ">=") and \
                            lit_val(c2.get("r")) in (lim, lim + 1) and \
                            any(x.get("k") == "mcall" and x.get("m") in ("count", "len") for x in walk(c2["l"])):
                        checked = True
                if not checked:
                    rep.add(Finding("U4", b["path"], "loop-cap(%d)" % lim,
                                    "%s stops reading its input after %d elements (`break` once the collection "
                                    "holds %d) and never rejects longer input: surplus lines are accepted and "
                                    "dropped" % (b["path"], lim, lim), b["file"], c.get("ln")))
    return r
