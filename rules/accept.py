"""A9 / U6: accept formulas of validators and field parsers.

For a Result-returning function the *accept condition* is the disjunction, over its Ok exits, of the path
condition — a formula over canonical atoms about the arguments (length thresholds, literal equalities, character
class predicates, callee-succeeds atoms CALLOK(f(args)), per-element conditions of loops).  It is compared with a
reviewed reference by logical equivalence (structural normal form first, truth table when the shapes differ), so
reordering checks, renaming locals or restructuring ifs is silent, while relaxing / dropping / changing a guard is
reported."""
import itertools
import json
import os
import re
from .common import Finding
from .facts import walk, is_call, lit_val, callee
from .facts import peel as _peel_loose


def peel(n):
    """strip only what cannot change a value: references, derefs, clones and string views"""
    while isinstance(n, dict):
        k = n.get("k")
        if k == "ref":
            n = n["e"]
        elif k == "un" and n.get("op") == "*":
            n = n["e"]
        elif k == "mcall" and n.get("m") in ("as_ref", "as_str", "clone", "to_string", "as_deref", "to_owned",
                                             "as_mut", "borrow", "as_slice", "cloned", "copied", "iter",
                                             "into_iter") and not n.get("args"):
            n = n["recv"]
        elif k == "mcall" and n.get("m") in ("map_err", "context", "with_context", "ok_or", "ok_or_else"):
            n = n["recv"]         # only the error is rewritten / supplied: the payload is the same
        elif k == "block" and not n.get("stmts") and n.get("expr") is not None:
            n = n["expr"]
        elif k == "cast":
            n = n["e"]
        else:
            break
    return n

from . import guards, decide
from .guards import TRUE, FALSE, f_and, f_or, f_not, show, atoms_of

SPEC = os.path.join(os.path.dirname(os.path.dirname(os.path.abspath(__file__))), "spec", "accept_formulas.json")


COLLECTION_OPS = ("push", "insert", "extend", "retain", "sort", "sort_by", "sort_by_key", "truncate", "clear", "remove",
                  "dedup", "reverse", "pop", "drain", "append", "swap_remove", "sort_unstable_by_key")


_PLACE = r"((?:self|p\d+)(?:\.[A-Za-z_]\w*)+|p\d+)"
_VAL_PLACE = re.compile(r"\bval\(" + _PLACE + r"\)")
_SOME_PLACE = re.compile(r"\bSOME\(" + _PLACE + r"\)")


def norm_text(t):
    """one spelling for reading through an Option component: `val(self.x)` is `self.x`, `SOME(self.x)` is `P(self.x)`
    (if-let, as_ref().map(), is_some_and() and ? all read the same component)"""
    prev = None
    while prev != t:
        prev = t
        t = _VAL_PLACE.sub(r"\1", t)
        t = _strip_wrapped(t, "val(", "")
    # "is Some": one predicate name, whether it was read by a pattern, is_some() or `?`
    t = re.sub(r"(?<![A-Za-z_])SOME\(", "P(", t)
    # one spelling for the length of a place: `x.len()` is `len(x)`
    t = _LEN_OF.sub(r"len(\1)", t)
    t = _slice_len(t)
    return _flatten_phi(t)


_LEN_OF = re.compile(r"(?<![\w.)\]~@$])((?:~\d+|@\d+|\$\d+|~?[A-Za-z_]\w*)(?:\.[A-Za-z_]\w*|\.\d+)*)\.len\(\)")


def _slice_len(t):
    """GE(len(S[a..B]),k) with constant a, k is GE(B,k+a): the length of a slice from a constant start is its end
    minus that start (`part.is_empty()` for `part = s[1..end]` is `end < 2`)"""
    head = "GE(len("
    if not t.startswith(head) or not t.endswith(")"):
        return t
    # brackets inside quoted literals do not count
    masked, q = [], False
    for i, ch in enumerate(t):
        if ch == "'" and (i == 0 or t[i - 1] != "\\"):
            q = not q
            masked.append(ch)
        else:
            masked.append("x" if q else ch)
    m_ = "".join(masked)
    d, i0, end = 0, len(head), None
    for i in range(i0, len(m_)):
        ch = m_[i]
        if ch == "(":
            d += 1
        elif ch == ")":
            if d == 0:
                end = i
                break
            d -= 1
    if end is None:
        return t
    m = re.match(r"^,(\d+)\)$", t[end + 1:])
    if not m or m_[end - 1] != "]":
        return t
    d, j = 0, None
    for i in range(end - 1, i0 - 1, -1):
        ch = m_[i]
        if ch == "]":
            d += 1
        elif ch == "[":
            d -= 1
            if d == 0:
                j = i
                break
    if j is None:
        return t
    mm = re.match(r"^(\d+)\.\.(.+)$", t[j + 1:end - 1], re.S)
    if not mm:
        return t
    return "GE(%s,%d)" % (mm.group(2), int(m.group(1)) + int(mm.group(1)))


def _flatten_phi(t):
    """phi(a|phi(b|c)) is phi(a|b|c): the set of values a variable can have after the branches, without the nesting
    the branch structure happened to have"""
    if "phi(" not in t:
        return t
    out = ""
    i = 0
    while i < len(t):
        j = t.find("phi(", i)
        if j < 0 or (j > 0 and (t[j - 1].isalnum() or t[j - 1] == "_")):
            if j < 0:
                out += t[i:]
                break
            out += t[i:j + 4]
            i = j + 4
            continue
        # matching paren
        d, k, q = 0, j + 3, None
        end = None
        while k < len(t):
            ch = t[k]
            if q:
                if ch == q:
                    q = None
            elif ch == "'":
                q = ch
            elif ch == "(":
                d += 1
            elif ch == ")":
                d -= 1
                if d == 0:
                    end = k
                    break
            k += 1
        if end is None:
            out += t[i:]
            break
        inner = _flatten_phi(t[j + 4:end])
        alts = []
        for alt in _split_bar(inner):
            alt = alt.strip()
            m_ = re.match(r"^phi\((.*)\)$", alt, re.S)
            if m_ and _balanced(m_.group(1)):
                alts.extend(x.strip() for x in _split_bar(m_.group(1)))
            else:
                alts.append(alt)
        alts = sorted(set(alts))
        out += t[i:j] + ("phi(%s)" % "|".join(alts) if len(alts) > 1 else alts[0])
        i = end + 1
    return out


def _split_bar(t):
    out, cur, d, q = [], "", 0, None
    for ch in t:
        if q:
            cur += ch
            if ch == q:
                q = None
            continue
        if ch == "'":
            q = ch
        elif ch in "([{":
            d += 1
        elif ch in ")]}":
            d -= 1
        if ch == "|" and d == 0:
            out.append(cur)
            cur = ""
        else:
            cur += ch
    out.append(cur)
    return out


_FIELD_END = re.compile(r"^[A-Za-z_$@~(].*\.(?:[A-Za-z_]\w*|\d+)$", re.S)


def _strip_wrapped(t, head, repl_head):
    """head(<component read: ... .field>) -> <...> (val) / P(<...>) (SOME)"""
    i = 0
    out = t
    while True:
        j = out.find(head, i)
        if j < 0:
            return out
        if j > 0 and (out[j - 1].isalnum() or out[j - 1] == "_"):
            i = j + 1
            continue
        depth, k = 0, j + len(head) - 1
        end = None
        q = None
        while k < len(out):
            ch = out[k]
            if q:
                if ch == q:
                    q = None
            elif ch in "'":
                q = ch
            elif ch == "(":
                depth += 1
            elif ch == ")":
                depth -= 1
                if depth == 0:
                    end = k
                    break
            k += 1
        if end is None:
            return out
        inner = out[j + len(head):end]
        if (_FIELD_END.match(inner) or (not repl_head and inner.endswith(")"))) and inner.count("(") == inner.count(")"):
            # (the payload of a call result is written as the call: a pattern in a `match` arm, an `if let`, a
            # `let`-`else` and `?` all read the same value)
            if repl_head:
                out = out[:j] + repl_head + inner + ")" + out[end + 1:]
                i = j + len(repl_head)
            else:
                out = out[:j] + inner + out[end + 1:]
                i = j
        else:
            i = j + len(head)


def cat_text(parts):
    """canonical text of a concatenation: adjacent literals merged; a single value part is that value"""
    merged = []
    for kind, v in parts:
        if kind == "lit":
            if v == "":
                continue
            if merged and merged[-1][0] == "lit":
                merged[-1] = ("lit", merged[-1][1] + v)
            else:
                merged.append(("lit", v))
        else:
            m_ = re.match(r"^cat\((.*)\)$", v, re.S)
            if m_ and _balanced(m_.group(1)):
                for p in _cat_parts(v):
                    if p[0] == "lit" and merged and merged[-1][0] == "lit":
                        merged[-1] = ("lit", merged[-1][1] + p[1])
                    else:
                        merged.append(p)
            else:
                merged.append(("val", v))
    if len(merged) == 1 and merged[0][0] == "val":
        return merged[0][1]
    return "cat(%s)" % ",".join(("'%s'" % v.replace("'", "\\'")) if k_ == "lit" else v for k_, v in merged)


def _balanced(t):
    d = 0
    for ch in t:
        if ch == "(":
            d += 1
        elif ch == ")":
            d -= 1
            if d < 0:
                return False
    return d == 0


def _cat_parts(t):
    m_ = re.match(r"^cat\((.*)\)$", t, re.S)
    if not m_:
        return [("val", t)]
    out = []
    for p in _split_top(m_.group(1)):
        if len(p) >= 2 and p[0] == "'" and p[-1] == "'":
            out.append(("lit", p[1:-1].replace("\\'", "'")))
        elif p:
            out.append(("val", p))
    return out


def cat_append(old_t, part):
    return cat_text(_cat_parts(old_t) + [part])


class _Stores(list):
    def append(self, item):
        pc, rep_ = item
        super().append((pc, norm_loopvars(norm_text(rep_)) if isinstance(rep_, str) else rep_))


_LOOPVAR = re.compile(r"~[slmev]_[0-9a-f]{7}|~[A-Za-z_]\w*")


def norm_loopvars(t):
    """a variable changed inside a loop is written ~<name>; inside one atom only its identity matters"""
    seen = {}

    def rep_(m):
        return seen.setdefault(m.group(0), "~%d" % len(seen))
    return _LOOPVAR.sub(rep_, t)


class AcceptExtract(guards.Extract):
    def atom(self, s):
        return ("atom", norm_loopvars(norm_text(s)))

    def __init__(self, F, body):
        self.F = F
        self.tm = None
        self.T = body.get("impl_self") or "fn"
        self.sites = []
        self.depth = 0
        self.tagmap = {}
        self.fn_cache = {}
        self.visiting = set()
        self.body = body
        self.accept = []
        self.rejects = []
        self.stores = _Stores()     # (path condition, what the Ok value is built from)
        self.unknown = 0
        self.ctx = TRUE      # condition of the enclosing statements (kept out of the local pc to avoid blow-up)
        out = body.get("output") or ""
        self.mode = "bool" if out == "bool" else ("optres" if out.startswith("std::result::Result<std::option::Option<") else
                                                  ("option" if out.startswith("std::option::Option<") else "result"))

    # values: eager text aliases ---------------------------------------------------------
    def place(self, n, env):
        n0 = peel(n)
        if isinstance(n0, dict) and n0.get("k") == "local":
            a = env.get(n0["id"])
            if a and a[0] in ("place", "text"):
                return a[1]
            return None
        if isinstance(n0, dict) and n0.get("k") == "field":
            base = self.place(n0["e"], env)
            if base is None:
                return None
            return "%s.%s" % (base, n0["name"])
        if isinstance(n0, dict) and n0.get("k") == "index":
            b = self.place(n0["e"], env)
            if not b:
                return None
            # (s[a..])[..k] is s[a..(k+a)], (s[a..])[m..] is s[(m+a)..]: one spelling for a slice of a tail slice
            mm = re.match(r"^(.*)\[(\d+)\.\.\]$", b)
            if mm and isinstance(n0.get("i"), dict) and n0["i"].get("k") == "struct" and \
                    "ops::Range" in (n0["i"].get("path") or n0["i"].get("t") or ""):
                base0, a0 = mm.group(1), int(mm.group(2))
                fs = {f["name"]: f["e"] for f in n0["i"].get("fields") or []}
                kind = (n0["i"].get("path") or "").rsplit("::", 1)[-1]

                def shift(e):
                    v = lit_val(peel(e))
                    if isinstance(v, int):
                        return str(v + a0)
                    return "(%s+%d)" % (self.value_text(e, env), a0)
                if kind in ("Range", "RangeTo", "RangeFrom") and a0 > 0:
                    st = shift(fs["start"]) if "start" in fs else str(a0)
                    en = shift(fs["end"]) if "end" in fs else ""
                    return "%s[%s..%s]" % (base0, st, en)
            i = n0.get("i")
            if guards.is_const_range(i):
                return "%s[%s]" % (b, guards.text(i))
            v = lit_val(i) if isinstance(i, dict) else None
            if isinstance(v, int):
                return "%s[%d]" % (b, v)
            it = self.range_text(i, env) if isinstance(i, dict) else "?"
            return "%s[%s]" % (b, it)
        if isinstance(n0, dict) and n0.get("k") == "try":
            return None
        return None

    def range_text(self, i, env):
        if isinstance(i, dict) and i.get("k") == "struct" and "ops::Range" in (i.get("path") or i.get("t") or ""):
            fs = {f["name"]: self.value_text(f["e"], env) for f in i.get("fields") or []}
            p = (i.get("path") or "").rsplit("::", 1)[-1]
            st = fs.get("start", "")
            st = "" if st == "0" else st
            if p == "RangeInclusive":
                return "%s..=%s" % (st, fs.get("end", ""))
            return "%s..%s" % (st, fs.get("end", ""))
        return self.value_text(i, env)

    def call_name(self, x):
        f = callee(x)
        name = f.rsplit("::", 1)[-1]
        if (x.get("f") or "").endswith(("SwiftField::parse", "SwiftField::parse_with_variant", "SwiftField::to_swift_string")):
            ty = (x.get("ga") or ["?"])[0]
            m = re.match(r"^<(.*) as traits::SwiftField>::", x.get("inst") or "")
            if m:
                ty = m.group(1)
            name = "%s::%s" % (ty.rsplit("::", 1)[-1], name)
        return name

    @staticmethod
    def split_half(x, which):
        """s.split_at(k).0 is s[..k], .1 is s[k..]: the slice node for one half of a split_at call, else None"""
        if isinstance(x, dict) and x.get("k") == "mcall" and x.get("m") == "split_at" and len(x.get("args") or []) == 1 \
                and "str" in (x.get("rt") or "str"):
            nm, path = ("end", "std::ops::RangeTo") if which == 0 else ("start", "std::ops::RangeFrom")
            return {"k": "index", "ln": x.get("ln"), "e": x["recv"], "bt": x.get("rt"),
                    "i": {"k": "struct", "path": path, "t": path + "<usize>", "fields": [{"name": nm, "e": x["args"][0]}]}}
        return None

    def value_text(self, n, env):
        x = peel(n)
        if isinstance(x, dict) and x.get("k") == "field" and x.get("name") in ("0", "1"):
            h = self.split_half(peel(x.get("e")), int(x["name"]))
            if h is not None:
                return self.value_text(h, env)
        pl = self.place(n, env)
        if pl:
            return pl
        if not isinstance(x, dict):
            return "?"
        k = x.get("k")
        if k == "local":
            a = env.get(x["id"])
            if a and a[0] in ("text", "place"):
                return a[1]
            if a and a[0] == "value" and isinstance(a[1], dict):
                return self.value_text(a[1], {})
            return x.get("name")
        if k == "lit":
            return repr(x.get("v")) if x.get("t") in ("str", "char") else str(x.get("v"))
        if k == "mcall" and x.get("m") in ("concat", "join"):
            rv_ = x.get("recv")
            while isinstance(rv_, dict) and rv_.get("k") == "ref":
                rv_ = rv_["e"]
            sep = lit_val(peel(x["args"][0])) if (x.get("m") == "join" and x.get("args")) else ""
            if isinstance(rv_, dict) and rv_.get("k") == "array" and isinstance(sep, str):
                parts = []
                for i_, e_ in enumerate(rv_.get("es") or []):
                    if i_ and sep:
                        parts.append(("lit", sep))
                    lv_ = lit_val(peel(e_))
                    parts.append(("lit", lv_) if isinstance(lv_, str) else ("val", self.value_text(e_, env)))
                return cat_text(parts)
        if k == "mcall":
            args = ",".join(self.value_text(a, env) for a in x.get("args") or [] if not (isinstance(a, dict) and a.get("k") == "closure"))
            cl = [a for a in x.get("args") or [] if isinstance(a, dict) and a.get("k") == "closure"]
            if cl:
                cf = self.closure_formula(cl[0], env)
                if cf[0] == "atom" and cf[1].startswith("OPQ("):
                    # not a predicate: a projection / computation; render it as the value it yields
                    e3 = dict(env)
                    for i_, p_ in enumerate(cl[0].get("params") or []):
                        q_ = p_
                        while isinstance(q_, dict) and q_.get("k") == "pref":
                            q_ = q_["pat"]
                        if isinstance(q_, dict) and q_.get("k") == "bind":
                            e3[q_["id"]] = ("text", "$%d" % i_)
                        elif isinstance(q_, dict) and q_.get("k") == "ptup":
                            for j_, qq_ in enumerate(q_.get("pats") or []):
                                if qq_.get("k") == "bind":
                                    e3[qq_["id"]] = ("text", "$%d.%d" % (i_, j_))
                    args = (args + "," if args else "") + "|%s|" % self.value_text(cl[0].get("body"), e3)
                else:
                    args = (args + "," if args else "") + "|%s|" % guards.canon(cf)
            ga = x.get("ga") or []
            gtxt = "::<%s>" % ",".join(g.rsplit("::", 1)[-1] for g in ga) if ga and x["m"] in ("downcast_ref", "parse", "collect", "downcast") else ""
            return "%s.%s%s(%s)" % (self.value_text(x["recv"], env), x["m"], gtxt, args)
        if k == "call":
            f_ = x.get("inst") or x.get("f") or ""
            if (x.get("t") or "").endswith("string::String") and len(x.get("args") or []) == 1 and \
                    f_.rsplit("::", 1)[-1] == "from":
                return self.value_text(x["args"][0], env)
            if f_.endswith(("String::new", "String::with_capacity")):
                return "cat()"
            return "%s(%s)" % (self.call_name(x), ",".join(self.value_text(a, env) for a in x.get("args") or []))
        if k == "bin":
            return "(%s%s%s)" % (self.value_text(x["l"], env), x["op"], self.value_text(x["r"], env))
        if k == "un":
            return x["op"] + self.value_text(x["e"], env)
        if k == "try":
            y = x["e"]
            while isinstance(y, dict) and y.get("k") == "mcall" and y.get("m") in ("ok_or", "ok_or_else", "map_err"):
                y = y["recv"]
            sp = self.strip_affix(y, env)
            if sp is not None:
                return sp[1]
            return "val(%s)" % self.value_text(x["e"], env)
        if k == "struct":
            return guards.text(x)
        if k == "index":
            return "%s[%s]" % (self.value_text(x["e"], env), self.range_text(x["i"], env))
        if k == "tup":
            return "(%s)" % ",".join(self.value_text(e, env) for e in x["es"])
        if k == "if":
            cf_ = self.cond(x["cond"], dict(env))
            ct_ = guards.canon(cf_)
            tv_ = self.value_text(x["then"], env)
            ev_ = self.value_text(x.get("else"), env) if x.get("else") is not None else ""
            # one orientation for `if c {a} else {b}` and `if !c {b} else {a}`: the condition is written so that it is
            # false when all its atoms are false
            bits_ = ct_.rpartition(":")[2]
            if x.get("else") is not None and re.match(r"^[01]+$", bits_ or "") and bits_[0] == "1":
                ct_ = guards.canon(f_not(cf_))
                tv_, ev_ = ev_, tv_
            return "if(%s){%s}{%s}" % (ct_, tv_, ev_)
        if k == "block":
            e2 = dict(env)
            for s in x.get("stmts") or []:
                if s.get("k") == "let":
                    self.do_let(s, e2)
                elif s.get("k") == "assign":
                    l_ = peel(s.get("l"))
                    if isinstance(l_, dict) and l_.get("k") == "local":
                        e2[l_["id"]] = ("text", self.value_text(s["r"], e2))
            return self.value_text(x.get("expr"), e2) if x.get("expr") is not None else "()"
        if k == "match":
            return "match(%s)" % self.value_text(x["e"], env)
        if k == "array":
            return "[%s]" % ",".join(self.value_text(e_, env) for e_ in x.get("es") or [])
        if k == "def":
            if x.get("dk") in ("const", "assoc_const", "static"):
                cb = self.F.body_by_path.get(x.get("def"))
                y = cb.get("body") if cb else None
                while isinstance(y, dict) and (y.get("k") == "ref" or (y.get("k") == "block" and not y.get("stmts"))):
                    y = y.get("e") if y.get("k") == "ref" else y.get("expr")
                if isinstance(y, dict) and y.get("k") in ("array", "lit"):
                    return self.value_text(y, {})
            return (x.get("def") or "?").rsplit("::", 1)[-1]
        if k == "fmt":
            pcs = x.get("pieces") or []
            if all(isinstance(q, str) or (q.get("prec") is None and q.get("width") is None and
                                          (q.get("trait") or "new_display") == "new_display" and
                                          isinstance(q.get("arg"), int)) for q in pcs):
                # plain concatenation: the same text whether written with format!, push_str or +
                parts = []
                args = x.get("args") or []
                for q in pcs:
                    if isinstance(q, str):
                        parts.append(("lit", q))
                    elif q["arg"] < len(args):
                        parts.append(("val", self.value_text(args[q["arg"]], env)))
                    else:
                        parts.append(("val", "?"))
                return cat_text(parts)
            ps = "".join(q if isinstance(q, str) else "{%s%s}" % (":." + str(q["prec"]) if q.get("prec") is not None else "",
                                                               ("w" + str(q["width"])) if q.get("width") is not None else "")
                         for q in pcs)
            return "fmt(%s;%s)" % (ps, ",".join(self.value_text(a, env) for a in x.get("args") or []))
        if k == "closure":
            return "|..|"
        return k or "?"

    def closure_formula(self, cl, env):
        e2 = dict(env)
        d_ = getattr(self, "_cdepth", 0)
        tick = "'" * d_
        for i, p in enumerate(cl.get("params") or []):
            q = p
            while isinstance(q, dict) and q.get("k") == "pref":
                q = q["pat"]
            if isinstance(q, dict) and q.get("k") == "bind":
                e2[q["id"]] = ("text", "$%d%s" % (i, tick))
            elif isinstance(q, dict) and q.get("k") == "ptup":
                for j, qq in enumerate(q.get("pats") or []):
                    if qq.get("k") == "bind":
                        e2[qq["id"]] = ("text", "$%d%s.%d" % (i, tick, j))
        self._cdepth = d_ + 1
        try:
            return self.cond(cl["body"], e2)
        finally:
            self._cdepth = d_

    def opq(self, n):
        return self.atom("OPQ(%s)" % self.value_text(n, getattr(self, "_cur_env", {})))

    def cond(self, c, env):
        self._cur_env = env
        if isinstance(c, dict) and c.get("k") == "mcall":
            m = c.get("m")
            if m in ("any", "all") and c.get("args") and c["args"][0].get("k") == "closure":
                base_ = c["recv"]
                while isinstance(base_, dict) and base_.get("k") == "mcall" and base_.get("m") in ("iter", "into_iter", "copied", "cloned"):
                    base_ = base_["recv"]
                b0 = peel(base_)
                if isinstance(b0, dict) and b0.get("k") == "local" and env.get(b0["id"], ("",))[0] == "value":
                    b0 = peel(env[b0["id"]][1])
                strs = self.const_strs(b0) if isinstance(b0, dict) else None
                cl_ = c["args"][0]
                ps_ = cl_.get("params") or []
                q_ = ps_[0] if ps_ else None
                while isinstance(q_, dict) and q_.get("k") == "pref":
                    q_ = q_["pat"]
                if strs is not None and isinstance(q_, dict) and q_.get("k") == "bind" and len(strs) <= 12:
                    # a constant table: the closure once per member
                    out_ = FALSE if m == "any" else TRUE
                    for sv in sorted(set(strs)):
                        e3 = dict(env)
                        e3[q_["id"]] = ("value", {"k": "lit", "t": "str", "v": sv})
                        f_ = self.cond(cl_["body"], e3)
                        out_ = f_or(out_, f_) if m == "any" else f_and(out_, f_)
                    return out_
                inner = self.closure_formula(c["args"][0], env)
                return self.atom("%s[%s](%s)" % (m.upper(), self.value_text(c["recv"], env), guards.canon(inner)))
            if m in ("starts_with", "ends_with") and c.get("args") and c["args"][0].get("k") == "closure":
                inner = self.closure_formula(c["args"][0], env)
                return self.atom("%s[%s](%s)" % (m.upper(), self.value_text(c["recv"], env), guards.canon(inner)))
            if m in ("is_ok", "is_err"):
                f = self.atom("OK(%s)" % self.value_text(c["recv"], env))
                return f if m == "is_ok" else f_not(f)
            if m in ("is_ascii_digit", "is_ascii_alphabetic", "is_ascii_uppercase", "is_alphabetic",
                     "is_ascii_alphanumeric", "is_numeric", "is_alphanumeric", "is_uppercase", "is_ascii",
                     "is_whitespace", "is_ascii_lowercase", "is_lowercase", "is_digit", "is_char_boundary"):
                return self.atom("%s(%s)" % (m.upper(), self.value_text(c["recv"], env)))
        if isinstance(c, dict) and c.get("k") == "letx":
            p = c["pat"]
            while p.get("k") == "pref":
                p = p["pat"]
            so = self.split_once_parts(c["init"], env)
            inner_ = (p.get("pats") or [None])[0] if p.get("k") == "pts" else None
            while isinstance(inner_, dict) and inner_.get("k") == "pref":
                inner_ = inner_.get("pat")
            if so is not None and (p.get("path") or "").endswith("::Some") and isinstance(inner_, dict) and \
                    inner_.get("k") == "ptup" and len(inner_.get("pats") or []) == 2:
                # `if let Some((a, b)) = x.split_once(c)` is `if let Some(i) = x.find(c)` with a = x[..i], b = x[i+len..]
                for j_, q_ in enumerate(inner_["pats"]):
                    for qq_ in guards_walk_binds(q_):
                        env[qq_["id"]] = ("text", so[1 + j_])
                return self.atom("SOME(%s)" % so[0])
            sp = self.strip_affix(c["init"], env)
            if p.get("k") == "pts" and (p.get("path") or "").endswith("::Some") and sp is not None:
                # `if let Some(rest) = x.strip_prefix("L")` is `x.starts_with("L")` with rest = x[len..]
                atom_txt, rest_txt = sp
                for q in guards_walk_binds(p):
                    env[q["id"]] = ("text", rest_txt)
                return self.atom(atom_txt)
            if p.get("k") == "pts" and (p.get("path") or "").endswith(("::Ok", "::Some")):
                t = self.value_text(c["init"], env)
                for q in guards_walk_binds(p):
                    env[q["id"]] = ("text", "val(%s)" % t)
                kind = "OK" if p["path"].endswith("::Ok") else "SOME"
                # Some(literal) patterns
                inner = (p.get("pats") or [None])[0]
                if isinstance(inner, dict) and inner.get("k") == "plit":
                    return self.atom("EQ(%s,'%s')" % (t, inner.get("v")))
                if isinstance(inner, dict) and inner.get("k") == "ptup":
                    for j, qq in enumerate(inner.get("pats") or []):
                        if qq.get("k") == "plit":
                            return f_and(self.atom("%s(%s)" % (kind, t)), self.atom("EQ(%s.%d,'%s')" % (t, j, qq.get("v"))))
                return self.atom("%s(%s)" % (kind, t))
        return super().cond(c, env)

    def split_once_parts(self, e, env):
        """(text of the find, text of the part before, text of the part after) for x.split_once(lit) /
        x.rsplit_once(lit), else None"""
        x = peel(e)
        if isinstance(x, dict) and x.get("k") == "mcall" and x.get("m") in ("split_once", "rsplit_once") \
                and len(x.get("args") or []) == 1:
            v = lit_val(peel(x["args"][0]))
            if isinstance(v, str) and v:
                base = self.value_text(x["recv"], env)
                f = "%s.%s(%s)" % (base, "find" if x["m"] == "split_once" else "rfind", repr(v))
                n = len(v.encode())
                mm = re.match(r"^(.*)\[(\d+)\.\.\]$", base)
                if mm:
                    # parts of a tail slice, in the spelling slices of slices get
                    b0, a0 = mm.group(1), int(mm.group(2))
                    return f, "%s[%d..(%s+%d)]" % (b0, a0, f, a0), "%s[((%s+%d)+%d)..]" % (b0, f, n, a0)
                return f, "%s[..%s]" % (base, f), "%s[(%s+%d)..]" % (base, f, n)
        return None

    def strip_affix(self, e, env):
        """(atom text, text of the remainder) for x.strip_prefix(lit) / x.strip_suffix(lit), else None"""
        x = peel(e)
        if isinstance(x, dict) and x.get("k") == "mcall" and x.get("m") in ("strip_prefix", "strip_suffix") \
                and len(x.get("args") or []) == 1:
            v = lit_val(peel(x["args"][0]))
            if isinstance(v, str) and v:
                base = self.value_text(x["recv"], env)
                n = len(v.encode())
                if x["m"] == "strip_prefix":
                    return "STARTS_WITH(%s,'%s')" % (base, v), "%s[%d..]" % (base, n)
                return "ENDS_WITH(%s,'%s')" % (base, v), "%s[..(%s.len()-%d)]" % (base, base, n)
        return None

    def rf_for_loop(self, s, cur, env, acc):
        """a `for` inside a predicate: `if c(x) { return true }` is any(c); `if c(x) { return false }` lets the
        rest run only when all(!c). Returns the condition after the loop, or None when the loop is not of that form."""
        binds = list(guards_walk_binds(s["pat"]))
        if len(binds) != 1:
            return None
        if any(x.get("k") in ("assign", "assignop") for x in walk(s["body"])):
            return None
        it_text = self.value_text(s["iter"], env)
        e2 = dict(env)
        e2[binds[0]["id"]] = ("text", "$0")
        t_acc, f_acc = [], []
        self._rf(s["body"], TRUE, dict(e2), t_acc)
        self._flip = True
        try:
            self._rf(s["body"], TRUE, dict(e2), f_acc)
        finally:
            self._flip = False
        t = FALSE
        for x in t_acc:
            t = f_or(t, x)
        f_ = FALSE
        for x in f_acc:
            f_ = f_or(f_, x)
        if len(atoms_of(t) | atoms_of(f_)) > 10:
            return None
        if t != FALSE and f_ == FALSE:
            a = self.atom("ANY[%s](%s)" % (it_text, guards.canon(t)))
            acc.append(f_and(cur, a))
            return f_and(cur, f_not(a))
        if f_ != FALSE and t == FALSE:
            return f_and(cur, self.atom("ALL[%s](%s)" % (it_text, guards.canon(f_not(f_)))))
        if t == FALSE and f_ == FALSE:
            return cur
        return None

    def cond_tries(self, c, env):
        """every `?` evaluated inside a condition must succeed for either branch to be reached; operands behind a
        short circuit are evaluated only when the left operand lets them"""
        if not isinstance(c, dict) or not any(t.get("k") == "try" for t in walk(c)):
            return TRUE
        if c.get("k") == "bin" and c.get("op") in ("&&", "||"):
            lt = self.cond_tries(c["l"], env)
            rt = self.cond_tries(c["r"], env)
            if rt == TRUE:
                return lt
            lc = self.cond(c["l"], dict(env))
            gate = f_or(f_not(lc), rt) if c["op"] == "&&" else f_or(lc, rt)
            return f_and(lt, gate)
        if c.get("k") == "letx":
            return self.try_atoms(c.get("init"), env)
        return self.try_atoms(c, env)

    def do_let(self, s, env):
        pat = s["pat"]
        init = s.get("init")
        if init is None:
            return
        if pat.get("k") == "bind":
            if (s.get("ty") or "") == "bool":
                env[pat["id"]] = ("bool", self.cond(init, env))
                return
            env[pat["id"]] = ("text", self.value_text(init, env))
        elif pat.get("k") == "ptup":
            # let (a, b) = x.split_once(L).ok_or(..)? / .unwrap(): the two parts of x around its first L
            i0 = init
            while isinstance(i0, dict) and (i0.get("k") == "try" or (i0.get("k") == "mcall" and i0.get("m") in (
                    "ok_or", "ok_or_else", "unwrap", "expect", "map_err"))):
                i0 = i0.get("e") if i0.get("k") == "try" else i0.get("recv")
            so = self.split_once_parts(i0, env) if i0 is not init else None
            if so is not None and len(pat.get("pats") or []) == 2:
                for j, q in enumerate(pat["pats"]):
                    for qq in guards_walk_binds(q):
                        env[qq["id"]] = ("text", so[1 + j])
                return
            t = self.value_text(init, env)
            for j, q in enumerate(pat.get("pats") or []):
                if q.get("k") == "bind":
                    h = self.split_half(peel(init), j) if j < 2 else None
                    env[q["id"]] = ("text", self.value_text(h, env) if h is not None else "%s.%d" % (t, j))
        else:
            t = self.value_text(init, env)
            for q in guards_walk_binds(pat):
                env[q["id"]] = ("text", "val(%s)" % t)

    # try sites: which fallible expression must succeed ------------------------------------------
    def try_atoms(self, n, env):
        """formula that all `?` inside expression n succeed"""
        out = TRUE
        if not isinstance(n, (dict, list)):
            return out
        for t in walk(n):
            if t.get("k") == "try":
                out = f_and(out, self.ok_atom(t["e"], env))
        return out

    def ok_atom(self, e, env):
        x = e
        while isinstance(x, dict) and x.get("k") == "mcall" and x.get("m") in ("map_err", "map", "context"):
            x = x["recv"]
        if isinstance(x, dict) and x.get("k") == "mcall" and x.get("m") in ("ok_or", "ok_or_else"):
            sp = self.strip_affix(x["recv"], env)
            if sp is not None:
                return self.atom(sp[0])
            so = self.split_once_parts(x["recv"], env)
            if so is not None:
                return self.atom("SOME(%s)" % so[0])
            return self.atom("SOME(%s)" % self.value_text(x["recv"], env))
        sp = self.strip_affix(x, env)
        if sp is not None:
            return self.atom(sp[0])
        if isinstance(x, dict) and x.get("k") in ("call", "mcall"):
            f = callee(x)
            if x.get("k") == "mcall" and x.get("m") == "parse" and (x.get("ga") or []):
                return self.atom("PARSES(%s,%s)" % (x["ga"][0], self.value_text(x["recv"], env)))
            name = f.rsplit("::", 1)[-1]
            if f.endswith("SwiftField::parse") or f.endswith("SwiftField::parse_with_variant"):
                ty = (x.get("ga") or ["?"])[0]
                inst = x.get("inst") or ""
                m = re.match(r"^<(.*) as traits::SwiftField>::", inst)
                if m:
                    ty = m.group(1)
                name = "%s::parse" % ty.rsplit("::", 1)[-1]
            args = list(x.get("args") or [])
            if x.get("k") == "mcall":
                args = [x.get("recv")] + args
            # message / field-name arguments (string literals) are not part of the condition
            at = []
            for a in args:
                if isinstance(a, dict) and a.get("k") == "closure":
                    at.append("|%s|" % guards.canon(self.closure_formula(a, env)))
                elif not isinstance(lit_val(peel(a)), str) or len(args) == 1:
                    at.append(self.value_text(a, env))
            at = [a for a in at if not a.startswith("fmt(")]
            return self.atom("CALLOK(%s(%s))" % (name, ",".join(at)))
        return self.atom("OK(%s)" % self.value_text(e, env))

    # walking: accept condition -------------------------------------------------------------------
    def is_ok(self, e):
        e = e
        while isinstance(e, dict) and e.get("k") == "block" and not e.get("stmts"):
            e = e.get("expr")
        if not (isinstance(e, dict) and e.get("k") == "call" and e.get("ctor")):
            return False
        f = e.get("f") or ""
        if self.mode == "optres":
            # "delivers something": Ok(Some(..))
            if not f.endswith("::Ok"):
                return False
            a = peel((e.get("args") or [None])[0])
            return isinstance(a, dict) and a.get("k") == "call" and (a.get("f") or "").endswith("::Some")
        if self.mode == "option":
            return f.endswith("::Some")
        return f.endswith("::Ok")

    def is_err(self, e):
        while isinstance(e, dict) and e.get("k") == "block" and not e.get("stmts"):
            e = e.get("expr")
        if not isinstance(e, dict):
            return False
        if e.get("k") == "call" and e.get("ctor") and (e.get("f") or "").endswith("::Err"):
            return True
        if e.get("k") == "def" and (e.get("def") or "").endswith("::None"):
            return True
        if self.mode == "optres" and e.get("k") == "call" and e.get("ctor") and (e.get("f") or "").endswith("::Ok"):
            a = peel((e.get("args") or [None])[0])
            return isinstance(a, dict) and a.get("k") == "def" and (a.get("def") or "").endswith("::None")
        return False

    def value_exit(self, e, pc, env):
        """an expression is the function's result under pc"""
        x = e
        while isinstance(x, dict) and x.get("k") == "block" and not x.get("stmts") and x.get("expr") is not None:
            x = x["expr"]
        if x is None:
            return
        if self.mode == "bool" and x.get("k") not in ("if", "match", "block"):
            self.accept.append(f_and(self.ctx, f_and(pc, self.cond(x, env))))
            return
        if self.is_err(x):
            # which error, under which condition (U8)
            nm = None
            for y in walk(x):
                pth = y.get("path") or y.get("f") or ""
                if y.get("k") in ("struct", "call") and "ParseError::" in pth:
                    nm = pth.rsplit("::", 1)[-1]
                    break
            if nm and hasattr(self, "rejects"):
                self.rejects.append((nm, f_and(self.ctx, pc)))
            return
        if self.is_ok(x):
            self.accept.append(f_and(self.ctx, f_and(pc, self.try_atoms(x, env))))
            self.stores.append((f_and(self.ctx, f_and(pc, self.try_atoms(x, env))),
                                self.store_repr((x.get("args") or [None])[0], env)))
            return
        k = x.get("k")
        if k == "if":
            cc = self.cond(x["cond"], env)
            pc = f_and(pc, self.cond_tries(x["cond"], env))
            saved = self.ctx
            self.ctx = f_and(saved, pc)
            self.tail(x["then"], cc, dict(env))
            if x.get("else") is not None:
                self.tail(x["else"], f_not(cc), dict(env))
            self.ctx = saved
            return
        if k == "match":
            negs = TRUE
            for arm in x.get("arms") or []:
                ea = dict(env)
                pcnd = self.pat_cond(arm["pat"], x["e"], ea)
                self.tail(arm["body"], f_and(pc, f_and(negs, pcnd)), ea)
                negs = f_and(negs, f_not(pcnd))
            return
        if k == "block":
            self.tail(x, pc, env)
            return
        # a fallible expression returned as is: accepted iff it succeeds
        self.accept.append(f_and(self.ctx, f_and(pc, f_and(self.try_atoms(x, env), self.ok_atom(x, env)))))

    def store_repr(self, e, env, depth=0):
        """canonical description of the value an Ok exit delivers: struct fields / variant payloads as value texts"""
        x = peel(e) if e is not None else None
        if not isinstance(x, dict):
            return "?"
        if x.get("k") == "call" and x.get("ctor") and depth < 3:
            name = (x.get("f") or "").rsplit("::", 1)[-1]
            return "%s(%s)" % (name, ",".join(self.store_repr(a, env, depth + 1) for a in x.get("args") or []))
        if x.get("k") == "struct":
            name = (x.get("path") or x.get("t") or "").rsplit("::", 1)[-1]
            parts = []
            for f in sorted(x.get("fields") or [], key=lambda f: f["name"]):
                parts.append("%s=%s" % (f["name"], self.value_text(f["e"], env)))
            return "%s{%s}" % (name, "; ".join(parts))
        if x.get("k") == "tup":
            return "(%s)" % ",".join(self.store_repr(a, env, depth + 1) for a in x["es"])
        return self.value_text(x, env)

    def tail(self, n, pc, env):
        if n is None:
            return
        if n.get("k") != "block":
            self.value_exit(n, pc, env)
            return
        cur = pc
        for s in n.get("stmts") or []:
            cur = self.step(s, cur, env)
            if cur is None:
                return
        if n.get("expr") is not None:
            e = n["expr"]
            if e.get("k") in ("ret",):
                self.step(e, cur, env)
            else:
                self.value_exit(e, cur, env)

    def step(self, s, pc, env):
        """returns pc after statement s (None if it always leaves)"""
        k = s.get("k")
        if k == "let":
            init = s.get("init")
            if init is not None:
                i0 = init
                while isinstance(i0, dict) and i0.get("k") == "try":
                    i0 = i0["e"]
                if isinstance(i0, dict) and i0.get("k") in ("if", "match", "block") and \
                        any(x.get("k") in ("ret", "try") for x in walk(i0)):
                    # control flow inside the initialiser: early returns and `?` are conditional
                    r_ = self.step(i0, pc, env)
                    if r_ is None:
                        return None
                    pc = r_
                else:
                    pc = f_and(pc, self.try_atoms(init, env))
            if s.get("els") is not None and init is not None:
                f = self.cond({"k": "letx", "pat": s["pat"], "init": init}, env)
                # else branch: may return Ok / Err
                saved = self.ctx
                self.ctx = f_and(saved, pc)
                self.branch(s["els"], f_not(f), dict(env))
                self.ctx = saved
                return f_and(pc, f)
            self.do_let(s, env)
            return pc
        if k == "ret":
            if s.get("e") is not None:
                self.value_exit(s["e"], pc, env)
            return None
        if k == "if":
            cc = self.cond(s["cond"], env)
            pc = f_and(pc, self.cond_tries(s["cond"], env))
            et, ee = dict(env), dict(env)
            saved = self.ctx
            self.ctx = f_and(saved, pc)
            t = self.branch(s["then"], cc, et)
            e = self.branch(s["else"], f_not(cc), ee) if s.get("else") is not None else f_not(cc)
            self.ctx = saved
            # assignments made in branches: forget precise text
            self.merge_env(env, et, ee)
            if t is None and e is None:
                return None
            if t is None:
                return f_and(pc, e)
            if e is None:
                return f_and(pc, t)
            return f_and(pc, f_or(t, e))
        if k == "match":
            negs = TRUE
            outs = []
            envs = []
            saved = self.ctx
            self.ctx = f_and(saved, pc)
            for arm in s.get("arms") or []:
                ea = dict(env)
                pcnd = self.pat_cond(arm["pat"], s["e"], ea)
                r = self.branch(arm["body"], f_and(negs, pcnd), ea)
                if r is not None:
                    outs.append(r)
                envs.append(ea)
                negs = f_and(negs, f_not(pcnd))
            self.ctx = saved
            self.merge_env(env, *envs)
            if not outs:
                return None
            o = FALSE
            for x in outs:
                o = f_or(o, x)
            return f_and(pc, o)
        if k in ("for", "while", "loop"):
            return self.loop(s, pc, env)
        if k in ("continue", "break"):
            # this iteration is over without a failure: for the loop as a whole the same as reaching the end of
            # the body
            if hasattr(self, "iter_done"):
                self.iter_done.append(f_and(self.ctx, pc))
            if k == "break" and hasattr(self, "breaks"):
                self.breaks.append(f_and(self.ctx, pc))
            return None
        if k == "assign":
            pc = f_and(pc, self.try_atoms(s["r"], env))
            l = peel(s["l"])
            if isinstance(l, dict) and l.get("k") == "local":
                env[l["id"]] = ("text", self.value_text(s["r"], env))
            elif isinstance(l, dict) and l.get("k") == "field":
                # a component of a value under construction is set: part of what an accepting exit delivers
                base = l
                chain = []
                while isinstance(base, dict) and base.get("k") == "field":
                    chain.append(base["name"])
                    base = peel(base["e"])
                if isinstance(base, dict) and base.get("k") == "local" and base.get("name") != "self":
                    self.stores.append((f_and(self.ctx, pc), "%s.%s=%s" % (
                        base.get("name"), ".".join(reversed(chain)), self.value_text(s["r"], env))))
            return pc
        if k == "assignop":
            l = peel(s["l"])
            if isinstance(l, dict) and l.get("k") == "local":
                env[l["id"]] = ("text", "(%s%s%s)" % (self.value_text(s["l"], env), s.get("op", "+=")[0], self.value_text(s["r"], env)))
            return pc
        if k == "block":
            return self.branch(s, pc, env)
        xs = s
        while isinstance(xs, dict) and xs.get("k") in ("semi", "stmt"):
            xs = xs.get("e") or xs.get("expr")
        if isinstance(xs, dict) and xs.get("k") == "mcall" and xs.get("m") in ("push_str", "push") and \
                re.match(r"^&(mut )?(std::string::)?String$", (xs.get("rt") or "").strip()):
            rv = peel(xs.get("recv"))
            if isinstance(rv, dict) and rv.get("k") == "local" and xs.get("args"):
                old_t = env.get(rv["id"], ("text", rv.get("name")))[1]
                a0 = xs["args"][0]
                lv = lit_val(peel(a0))
                part = ("lit", lv) if isinstance(lv, str) else ("val", self.value_text(a0, env))
                env[rv["id"]] = ("text", cat_append(old_t, part))
                return f_and(pc, self.try_atoms(s, env))
        # a collection under construction is extended / pruned: part of what the function delivers
        x0 = s
        while isinstance(x0, dict) and x0.get("k") in ("semi", "stmt"):
            x0 = x0.get("e") or x0.get("expr")
        if isinstance(x0, dict) and x0.get("k") == "mcall" and x0.get("m") in COLLECTION_OPS:
            rv = peel(x0.get("recv"))
            root = rv
            while isinstance(root, dict) and root.get("k") in ("field", "index"):
                root = peel(root.get("e"))
            if isinstance(root, dict) and root.get("k") == "local" and root.get("name") != "self" and \
                    ("Vec<" in (x0.get("rt") or "") or "HashMap<" in (x0.get("rt") or "")):
                args = []
                for a in x0.get("args") or []:
                    if isinstance(a, dict) and a.get("k") == "closure":
                        args.append("|%s|" % guards.canon(self.closure_formula(a, env)))
                    else:
                        args.append(self.value_text(a, env))
                if not re.match(r"^&(mut )?(std::string::)?String$", (x0.get("rt") or "").strip()):
                    # from here on the collection is no longer what it was initialised with
                    if rv is root:
                        env[root["id"]] = ("text", "~" + root.get("name"))
                    self.stores.append((f_and(self.ctx, pc), "%s.%s(%s)" % (self.value_text(rv, env) if rv is not root else root.get("name"),
                                                                            x0["m"], ",".join(args))))
        # expression statement: `validate(x)?;` must succeed
        return f_and(pc, self.try_atoms(s, env))

    def merge_env(self, env, *branches):
        for b in branches:
            for k2, v in b.items():
                if k2 in env and env[k2] != v:
                    env[k2] = ("text", "phi(%s)" % "|".join(sorted({str(x.get(k2, ("", "?"))[1]) for x in branches})))

    def branch(self, n, pc, env):
        """walk a block that is not in tail position; returns pc after it or None"""
        if n is None:
            return pc
        if n.get("k") != "block":
            return self.step(n, pc, env)
        cur = pc
        for s in n.get("stmts") or []:
            cur = self.step(s, cur, env)
            if cur is None:
                return None
        if n.get("expr") is not None:
            e = n["expr"]
            if e.get("k") in ("ret", "if", "match", "for", "while", "loop", "block", "assign"):
                return self.step(e, cur, env)
            if e.get("k") in ("break", "continue"):
                return None
            cur = f_and(cur, self.try_atoms(e, env))
        return cur

    def loop(self, s, pc, env):
        """per-iteration accept condition becomes one canonical atom; exits inside the loop are collected"""
        sub = AcceptExtract(self.F, self.body)
        e2 = dict(env)
        it_text = ""
        if s.get("k") == "for":
            it_text = self.value_text(s["iter"], env)
            pat = s["pat"]
            for j, q in enumerate(list(guards_walk_binds(pat))):
                e2[q["id"]] = ("text", "@%d" % j)
        # variables assigned in the loop are unknown inside it
        for x in walk(s["body"]):
            if x.get("k") in ("assign", "assignop"):
                l = peel(x["l"])
                if isinstance(l, dict) and l.get("k") == "local":
                    e2[l["id"]] = ("text", "~" + l["name"])
                    env[l["id"]] = ("text", "~" + l["name"])
            if x.get("k") == "mcall" and x.get("m") in COLLECTION_OPS and (x.get("rt") or "").startswith("&mut"):
                l = peel(x.get("recv"))
                if isinstance(l, dict) and l.get("k") == "local" and l.get("name") != "self":
                    e2[l["id"]] = ("text", "~" + l["name"])
                    env[l["id"]] = ("text", "~" + l["name"])
        cond_f = TRUE
        if s.get("k") == "while":
            cond_f = sub.cond(s["cond"], e2)
        sub.iter_done = []
        sub.breaks = []
        body_ok = sub.branch(s["body"], cond_f, e2)
        for d_ in sub.iter_done:
            body_ok = f_or(body_ok if body_ok is not None else FALSE, d_)
        # `break` in a for / while loop: the elements after the first one that meets the condition are not looked at
        # (`continue` under the same condition skips one element only); part of what the loop is
        if s.get("k") in ("for", "while") and sub.breaks:
            bf_ = FALSE
            for x_ in sub.breaks:
                bf_ = f_or(bf_, x_)
            it_text = "%s;STOP(%s)" % (it_text, guards.canon(bf_) if len(atoms_of(bf_)) <= 10 else structural(bf_))
        for pc_, rep_ in sub.stores:
            self.stores.append((f_and(self.ctx, pc), "loop[%s]{%s => %s}" % (
                it_text, guards.canon(pc_) if len(atoms_of(pc_)) <= 10 else structural(pc_), rep_)))
        # Ok exits from inside the loop
        early = FALSE
        for a in sub.accept:
            early = f_or(early, a)
        body_f = body_ok if body_ok is not None else FALSE
        if body_f == TRUE and early == FALSE:
            # nothing in the body can fail or leave: the loop says nothing about acceptance
            return pc
        nb = len(list(guards_walk_binds(s["pat"]))) if s.get("k") == "for" else 0
        stateful = any("~" in a for a in atoms_of(body_f) | atoms_of(early))
        if s.get("k") == "for" and nb == 1 and not stateful and len(atoms_of(body_f) | atoms_of(early)) <= 10:
            it2 = it_text
            # `for x in v { if !c(x) { leave } }` is v.iter().all(c); `for x in v { if c(x) { return true } }` is any(c)
            def as_closure(f_):
                return guards.canon(f_).replace("@0", "$0")
            if early == FALSE:
                return f_and(pc, self.atom("ALL[%s](%s)" % (it2, as_closure(body_f))))
            if self.mode == "bool" and (body_f == TRUE or equivalent(f_or(early, body_f), TRUE)[0] is True):
                a_ = self.atom("ANY[%s](%s)" % (it2, as_closure(early)))
                self.accept.append(f_and(f_and(self.ctx, pc), a_))
                return f_and(pc, f_not(a_))
        atom = self.atom("LOOPOK[%s %s](%s)" % (s.get("k"), it_text, guards.canon(body_f) if len(atoms_of(body_f)) <= 10 else show(body_f)))
        if early != FALSE:
            self.accept.append(f_and(f_and(self.ctx, pc), self.atom("LOOPEXIT[%s](%s)" % (it_text, guards.canon(early) if len(atoms_of(early)) <= 10 else show(early)))))
        return f_and(pc, atom)

    def run_accept(self):
        env = {}
        for p in self.body.get("params") or []:
            if p.get("k") == "bind":
                env[p["id"]] = ("place", p["name"])
        self.tail(self.body["body"], TRUE, env)
        out = FALSE
        for a in self.accept:
            out = f_or(out, a)
        return out


def guards_walk_binds(p):
    if not isinstance(p, dict):
        return
    if p.get("k") == "bind":
        yield p
    for q in p.get("pats") or []:
        yield from guards_walk_binds(q)
    if p.get("pat"):
        yield from guards_walk_binds(p["pat"])
    for f in p.get("fields") or []:
        yield from guards_walk_binds(f.get("pat"))


# ---------------------------------------------------------------------------
# normal form and equivalence

def nnf(f, neg=False):
    t = f[0]
    if t == "T":
        return FALSE if neg else TRUE
    if t == "F":
        return TRUE if neg else FALSE
    if t == "atom":
        return ("not", f) if neg else f
    if t == "not":
        return nnf(f[1], not neg)
    a, b = nnf(f[1], neg), nnf(f[2], neg)
    if (t == "and") != neg:
        return ("and", a, b)
    return ("or", a, b)


def flat(f):
    """canonical nested tuple: ('and'|'or', sorted unique children) / literals"""
    t = f[0]
    if t in ("T", "F"):
        return t
    if t == "atom":
        return f[1]
    if t == "not":
        return "!" + flat(f[1]) if isinstance(flat(f[1]), str) else ("not", flat(f[1]))
    kids = []

    def gather(x):
        if x[0] == t:
            gather(x[1])
            gather(x[2])
        else:
            kids.append(flat(x))
    gather(f)
    uniq = sorted(set(json.dumps(k) for k in kids))
    if len(uniq) == 1:
        return json.loads(uniq[0])
    return (t, tuple(uniq))


def conjuncts(f):
    if f[0] == "and":
        return conjuncts(f[1]) + conjuncts(f[2])
    return [f]


def structural(f):
    return json.dumps(flat(nnf(f)))


def equivalent(f, g):
    if structural(f) == structural(g):
        return True, None
    A = sorted(atoms_of(f) | atoms_of(g))
    if len(A) > 18:
        # both are (mostly) conjunctions: drop the conjuncts they share and compare the rest
        cf, cg = conjuncts(nnf(f)), conjuncts(nnf(g))
        sf = {json.dumps(flat(x)): x for x in cf}
        sg = {json.dumps(flat(x)): x for x in cg}
        rf = [v for k2, v in sf.items() if k2 not in sg]
        rg = [v for k2, v in sg.items() if k2 not in sf]
        f2, g2 = TRUE, TRUE
        for x in rf:
            f2 = f_and(f2, x)
        for x in rg:
            g2 = f_and(g2, x)
        A = sorted(atoms_of(f2) | atoms_of(g2))
        if len(A) > 18:
            return None, "structurally different and too many atoms (%d) for a truth table" % len(A)
        f, g = f2, g2
    for bits in itertools.product([False, True], repeat=len(A)):
        val = dict(zip(A, bits))
        if not guards.thresholds_consistent(val):
            continue
        if guards.ev(f, val) != guards.ev(g, val):
            return False, val
    return True, None


def rule_helpers(F):
    """value helpers of the validation rules: crate-local functions of a message type that a validate_* function
    calls directly and that compute a value (codes found in a narrative, a currency, a sum) rather than a verdict"""
    key = id(F)
    if key in _RH:
        return _RH[key]
    hs = set()
    for b in F.bodies:
        if "body" not in b or b.get("exp") or not b["path"].startswith("messages::") or \
                not b["name"].startswith("validate_"):
            continue
        for n in walk(b["body"]):
            if n.get("k") in ("call", "mcall"):
                c = callee(n)
                hb = F.body_by_path.get(c)
                if hb is not None and c.startswith("messages::") and "body" in hb and not hb.get("exp") and \
                        not hb["name"].startswith(("validate_", "parse_")) and (hb.get("output") or "") not in ("bool", "()") \
                        and not (hb.get("output") or "").startswith("std::vec::Vec<errors::"):
                    hs.add(c)
    _RH[key] = hs
    return hs


_RH = {}


def targets(F):
    out = []
    rh = rule_helpers(F)
    for b in F.bodies:
        if "body" not in b or b.get("exp") or b["kind"] not in ("Fn", "AssocFn"):
            continue
        outp = b.get("output") or ""
        p = b["path"]
        res = outp.startswith("std::result::Result<")
        opt = outp.startswith("std::option::Option<")
        is_field_parse = res and (b.get("impl_trait") or "").endswith("traits::SwiftField") and b["name"] in ("parse", "parse_with_variant")
        is_util = res and p.startswith(("fields::swift_utils::", "fields::field_utils::"))
        is_hdr = (res and p.startswith("headers::") and b["name"] == "parse") or \
            ((res or opt) and p.startswith("headers::") and b["name"].startswith("parse_") and not b.get("impl_trait"))
        is_parser = (res or opt or outp == "bool") and p.startswith(("parser::message_parser::", "parser::field_extractor::",
                                                                       "parser::utils::", "parser::generated::",
                                                                       "parser::swift_parser::SwiftParser::extract_block",
                                                                       "parser::swift_parser::SwiftParser::find_matching_brace",
                                                                       "parser::swift_parser::FieldConsumptionTracker::",
                                                                       "parser::swift_parser::find_field",
                                                                       "parser::swift_parser::apply_field50",
                                                                       "parser::sequence_parser::"))
        is_pred = outp == "bool" and b["name"] in ("has_reject_codes", "has_return_codes", "is_cover_message",
                                                   "is_stp_message", "is_stp_compliant") and \
            (p.startswith("swift_message::") or p.startswith("messages::"))
        is_tok = p.startswith(("parser::swift_parser::apply_field50", "parser::sequence_parser::",
                               "parser::swift_parser::parse_sequence", "parser::swift_parser::reconstruct_block4"))
        is_msg_helper = res and p.startswith("messages::") and not b.get("impl_trait") and \
            b["name"].startswith("parse_") and b["name"] != "parse_from_block4"
        if is_field_parse or is_util or is_hdr or is_parser or is_pred or is_tok or is_msg_helper or p in rh:
            out.append(b)
    return out


def extract_all(F):
    res = {}
    for b in targets(F):
        ex = AcceptExtract(F, b)
        try:
            f = ex.run_accept()
        except RecursionError:
            continue
        res[b["path"]] = (f, b)
    return res


FILTERS = {
    "parser": re.compile(r"^parser::(message_parser|field_extractor|utils)::|^messages::\w+::\w+::parse_(?!from_block4)"),
    "blocks": re.compile(r"^parser::swift_parser::SwiftParser::|^parser::utils::extract_block4"),
    "tokeniser": re.compile(r"^parser::generated::|FieldConsumptionTracker|^parser::sequence_parser::|^parser::swift_parser::(find_field|apply_field50|parse_sequence|reconstruct_block4)"),
    "predicates": re.compile(r"::(has_reject_codes|has_return_codes|is_cover_message|is_stp_message|is_stp_compliant)$"),
    "amount": re.compile(r"amount|decimal|Field(19|32|33|34|36|37|60|61|62|64|65|71F|71G|90)"),
    "date": re.compile(r"parse_date|parse_time|parse_datetime|date_format|time_format|date_string|Field(11|13|30|32|60|61|62|64|65)"),
    "headers": re.compile(r"^headers::|Header"),
}


_VOCAB = []


def reference_vocabulary():
    """function / method names that occur anywhere in the reviewed accept formulas and store maps"""
    if _VOCAB:
        return _VOCAB[0]
    texts = []
    if os.path.exists(SPEC):
        sp = json.load(open(SPEC))["functions"]
        for p, v in sp.items():
            texts.append(p)
            texts.extend(atoms_of(guards.from_json(v["f"])))
    st = os.path.join(os.path.dirname(SPEC), "store_maps.json")
    if os.path.exists(st):
        for p, sig in json.load(open(st))["functions"].items():
            texts.extend(sig)
    v = decide.vocabulary(texts)
    # the reviewed functions themselves: a call to one of them is a call to known code, not to a fresh helper
    if os.path.exists(SPEC):
        for p in json.load(open(SPEC))["functions"]:
            nm = re.sub(r">$", "", p).rsplit("::", 1)[-1]
            if re.match(r"^[a-z_][a-z0-9_]*$", nm) and nm not in ("parse", "new", "default"):
                v.add(nm)
    _VOCAB.append(v)
    return _VOCAB[0]


def u6(rep, F, flt=None):
    r = rep.rule("U6", "accept condition = reviewed reference: for every field parser, utility validator and header "
                       "parser the condition under which it returns Ok (formula over length thresholds, literal "
                       "tests, character-class tests, callee-succeeds atoms and per-element loop conditions) is "
                       "logically equivalent to the reference formula", floor=150)
    if not os.path.exists(SPEC):
        rep.fail_closed("U6: spec/accept_formulas.json missing")
        return r
    spec = json.load(open(SPEC))["functions"]
    vocab = reference_vocabulary()
    cur = extract_all(F)
    rx = FILTERS.get(flt) if isinstance(flt, str) else None
    if flt == "fields":
        rx = re.compile(r"^(<fields::|fields::|headers::)")
    if isinstance(flt, tuple):
        rx = flt[1]
        r["floor"] = flt[2]
    elif flt:
        r["floor"] = {"amount": 25, "date": 20, "headers": 4, "parser": 10, "blocks": 2, "tokeniser": 2,
                      "predicates": 12}.get(flt, 1)
    for path in sorted(set(spec) | set(cur)):
        if rx is not None and not rx.search(path):
            continue
        r["instances"] += 1
        if path not in cur:
            rep.notes.append("U6: %s of the reference no longer exists (renamed?)" % path)
            continue
        f, b = cur[path]
        if path not in spec:
            rep.notes.append("U6: %s is not in the reference (new function, not judged)" % path)
            continue
        g = guards.from_json(spec[path]["f"])
        eq, wit = equivalent(f, g)
        if eq is not True:
            rw, who = decide.rewritten(F, path)
            if rw:
                r["undecided"] = r.get("undecided", 0) + 1
                rep.notes.append("U6: %s (%s) differs from the reviewed version in %d statements / conditions: "
                                 "restructured, comparison with the reference undecided" % (path, who, rw))
                continue
            verdict, info = decide.definite_difference(f, g, vocab)
            if verdict == "same":
                eq = True
            elif verdict == "undecided":
                r["undecided"] = r.get("undecided", 0) + 1
                rep.notes.append("U6: %s differs from the reference only in terms the extractor cannot resolve "
                                 "(%s): equivalence undecided, not reported" % (path, "; ".join(info)[:300]))
                continue
            else:
                eq, wit = False, info
        if eq is False:
            diff = ", ".join("%s=%s" % (k, "T" if v else "F") for k, v in sorted(wit.items()))[:400] if isinstance(wit, dict) else ""
            only_new = sorted(atoms_of(f) - atoms_of(g))
            only_old = sorted(atoms_of(g) - atoms_of(f))
            rep.add(Finding("U6", path, "accept-changed",
                            "%s now accepts under a different condition than the reference: conditions only in the "
                            "current code %s; only in the reference %s%s"
                            % (path, only_new[:4], only_old[:4], ("; they differ e.g. when " + diff) if diff and not (only_new or only_old) else ""),
                            b["file"], b["line"], detail={"current": show(f)[:1500], "reference": spec[path].get("show", "")[:1500]}))
        elif eq is None:
            rep.add(Finding("U6", path, "accept-changed",
                            "%s: accept condition differs in shape from the reference and is too large to compare "
                            "exhaustively (%s)" % (path, wit), b["file"], b["line"]))
    return r


# ---------------------------------------------------------------------------
# U7: what an accepting exit stores

STORES = os.path.join(os.path.dirname(SPEC), "store_maps.json")


def store_signature(ex):
    out = []
    for pc, rep_ in ex.stores:
        c = guards.canon(pc) if len(atoms_of(pc)) <= 10 else structural(pc)
        out.append("%s => %s" % (c, rep_))
    return sorted(set(out))


UNKNOWN_EXITS = {}


def extract_stores(F):
    res = {}
    for b in targets(F):
        if (b.get("output") or "") == "bool":
            continue
        ex = AcceptExtract(F, b)
        try:
            ex.run_accept()
        except RecursionError:
            continue
        if ex.stores:
            res[b["path"]] = (store_signature(ex), b)
            acc_atoms = set()
            for f_ in ex.accept:
                acc_atoms |= atoms_of(f_)
            UNKNOWN_EXITS[b["path"]] = [a_ for a_ in acc_atoms if a_.startswith(("CALLOK(", "OK("))]
    return res


def _split_top(t):
    out, depth, cur, q = [], 0, "", None
    for ch in t:
        if q:
            cur += ch
            if ch == q:
                q = None
            continue
        if ch in "'\"":
            q = ch
            cur += ch
            continue
        if ch in "([{":
            depth += 1
        elif ch in ")]}":
            depth -= 1
        if ch == "," and depth == 0:
            out.append(cur)
            cur = ""
        else:
            cur += ch
    if cur:
        out.append(cur)
    return out


def _pieces(entry):
    """atoms of the condition and the value of one `cond => value` store entry (loop entries recursively)"""
    cond, _, val = entry.partition(" => ")
    atoms_txt, _, bits = cond.rpartition(":")
    ps = {"A:" + a for a in _split_top(atoms_txt) if a}
    ps.add("T:%s|%s" % (bits, len(ps)))
    m = re.match(r"^loop\[(.*?)\]\{(.*)\}$", val, re.S)
    if m and " => " in m.group(2):
        ps.add("L:" + m.group(1))
        ps |= _pieces(m.group(2))
    else:
        ps.add("V:" + val)
    return ps


def u7(rep, F, flt=None):
    r = rep.rule("U7", "stored value = reviewed reference: at every accepting exit of a parser the value it delivers "
                       "(each struct component / variant payload as an expression over the input: which slice, "
                       "which split part, which validator result) is the one of the reference", floor=100)
    if not os.path.exists(STORES):
        rep.fail_closed("U7: spec/store_maps.json missing")
        return r
    spec = json.load(open(STORES))["functions"]
    cur = extract_stores(F)
    rx = FILTERS.get(flt) if isinstance(flt, str) else None
    if flt == "fields":
        rx = re.compile(r"^(<fields::|fields::)")
    if isinstance(flt, tuple):
        rx = flt[1]
        r["floor"] = flt[2]
    elif flt:
        r["floor"] = {"fields": 100, "headers": 3, "parser": 5, "date": 15, "amount": 20}.get(flt, 1)
    for path in sorted(set(spec) | set(cur)):
        if rx is not None and not rx.search(path):
            continue
        r["instances"] += 1
        if path not in cur or path not in spec:
            continue
        sig, b = cur[path]
        if sig != spec[path]:
            rw, who = decide.rewritten(F, path)
            if rw:
                r["undecided"] = r.get("undecided", 0) + 1
                rep.notes.append("U7: %s (%s) differs from the reviewed version in %d statements / conditions: "
                                 "restructured, comparison with the reference undecided" % (path, who, rw))
                continue
            a = [x for x in sig if x not in spec[path]]
            o = [x for x in spec[path] if x not in sig]
            vocab = reference_vocabulary()
            pa, po = set(), set()
            for x in a:
                pa |= _pieces(x)
            for x in o:
                po |= _pieces(x)
            # a component assigned on both sides from different, fully resolved expressions is a definite difference
            # whatever happened to the conditions around it
            def assigns(entries):
                d = {}
                for e_ in entries:
                    v_ = e_.partition(" => ")[2]
                    m_ = re.match(r"^([\w]+(?:\.\w+)+)=(.*)$", v_)
                    if m_:
                        d.setdefault(m_.group(1), set()).add(m_.group(2))
                return d
            da, do_ = assigns(a), assigns(o)
            definite = None
            for tgt in set(da) & set(do_):
                if len(da[tgt]) == 1 and len(do_[tgt]) == 1:
                    va_, vo_ = list(da[tgt])[0], list(do_[tgt])[0]
                    if va_ != vo_ and not decide.opaque(va_, vocab) and not decide.opaque(vo_, vocab):
                        definite = (tgt, va_, vo_)
            if definite is not None:
                rep.add(Finding("U7", path, "store-changed",
                                "%s now sets %s to `%s`; the reference sets it to `%s`"
                                % (path, definite[0], definite[1][:200], definite[2][:200]), b["file"], b["line"]))
                continue
            pruning = [x for x in a if re.search(r"\.(retain|truncate|clear|remove|pop|drain|dedup|swap_remove)\(", x.partition(" => ")[2])]
            if not o and pruning:
                # everything the reference does is still done, and in addition the collection being delivered is
                # pruned: elements the reference delivers can now be missing
                rep.add(Finding("U7", path, "store-changed",
                                "%s additionally prunes what it delivers: `%s`" % (path, pruning[0].partition(" => ")[2][:200]),
                                b["file"], b["line"]))
                continue
            if (not a or not o) and any(decide.opaque(x_, vocab) for x_ in UNKNOWN_EXITS.get(path, [])):
                # entries exist on one side only and the function hands back the result of a callee the reference
                # does not know: what that callee delivers is not visible here
                r["undecided"] = r.get("undecided", 0) + 1
                rep.notes.append("U7: %s: delivers the result of a helper unknown to the reference: undecided" % path)
                continue
            # one value piece on each side: compare them token-wise; what they share may contain unresolved
            # names, what distinguishes them must not
            va_ = [x for x in (pa - po) if x.startswith("V:")]
            vo_ = [x for x in (po - pa) if x.startswith("V:")]
            rest = {x for x in (pa ^ po) if not x.startswith("V:")}
            if len(va_) == 1 and len(vo_) == 1 and not any(decide.opaque(x, vocab) for x in rest) and \
                    decide.texts_definitely_differ(va_[0], vo_[0], vocab):
                da_, db_ = decide.differing_tokens(va_[0], vo_[0])
                rep.add(Finding("U7", path, "store-changed",
                                "%s now delivers a different value than the reference: the current value has `%s` "
                                "where the reference has `%s`" % (path, " ".join(da_)[:200], " ".join(db_)[:200]),
                                b["file"], b["line"]))
                continue
            # the reference delivers one unconditional value T; the current code delivers `phi(T|X)`: T on one path
            # and, after a conditional re-assignment, a definitely different X on another
            if len(va_) == 1 and len(vo_) == 1 and "phi(" not in vo_[0] and \
                    not any(decide.opaque(x, vocab) for x in rest):
                ex = decide.phi_expansions(va_[0]) or ("if(" not in vo_[0] and decide.if_expansions(va_[0])) or None
                same = [alt for x, alt in (ex or []) if x == vo_[0]]
                if same:
                    # the re-assigned value usually mentions the first one: compare with it as one token
                    t0 = same[0]
                    other = [(alt.replace(t0, "firstvalue"), "firstvalue") for x, alt in ex if x != vo_[0]]
                    other = [o_ for o_ in other if decide.texts_definitely_differ(o_[0], o_[1], vocab | {"firstvalue"})]
                    if other:
                        da_, db_ = decide.differing_tokens(other[0][0], other[0][1])
                        rep.add(Finding("U7", path, "store-changed",
                                        "%s now re-assigns what it delivers on one path: the value may be `%s` where "
                                        "the reference always delivers `%s`" % (path, " ".join(da_)[:200],
                                                                                " ".join(db_)[:120] or "the first value"),
                                        b["file"], b["line"]))
                        continue
            # pieces with unresolved parts on both sides: when each pairs with a piece of the other side from which it
            # differs in a small, fully resolved edit only (the unresolved context is literally the same), the edit
            # is a definite difference (`items.len() >= 1` -> `>= 2` on a collection the function builds)
            oa_ = [x for x in (pa - po) if decide.opaque(x, vocab) and not x.startswith("T:")]
            oo_ = [x for x in (po - pa) if decide.opaque(x, vocab) and not x.startswith("T:")]
            clear_rest = [x for x in (pa ^ po) if not decide.opaque(x, vocab) and not x.startswith("T:")]
            if oa_ and len(oa_) == len(oo_) <= 4 and not clear_rest:
                import difflib
                pairs_, pool_ = [], list(oo_)
                for x in oa_:
                    y = max(pool_, key=lambda z: difflib.SequenceMatcher(a=x, b=z, autojunk=False).quick_ratio())
                    pool_.remove(y)
                    pairs_.append((x, y))
                if all(decide.texts_definitely_differ(x, y, vocab) for x, y in pairs_):
                    da_, db_ = decide.differing_tokens(pairs_[0][0], pairs_[0][1])
                    rep.add(Finding("U7", path, "store-changed",
                                    "%s delivers its value under a different condition / from a different expression "
                                    "than the reference: the current code has `%s` where the reference has `%s` (in "
                                    "`%s`)" % (path, " ".join(da_)[:120], " ".join(db_)[:120], pairs_[0][1][:160]),
                                    b["file"], b["line"]))
                    continue
            if any(decide.opaque(x, vocab) for x in (pa ^ po)):
                r["undecided"] = r.get("undecided", 0) + 1
                rep.notes.append("U7: %s: the delivered value differs from the reference only in terms the extractor "
                                 "cannot resolve: undecided, not reported" % path)
                continue
            va = (a[0].split(" => ", 1)[-1] if a else "-")
            vo = (o[0].split(" => ", 1)[-1] if o else "-")
            if a and o and va != vo:
                # two differently written values: a difference is reported only when the entries can be paired and
                # each pair differs in a small, fully resolved part (an edit); a re-arranged expression is undecided
                import difflib
                aa, oo = list(a), list(o)
                definite = len(aa) == len(oo) and len(aa) <= 3
                while definite and aa:
                    x = aa.pop()
                    y = max(oo, key=lambda z: difflib.SequenceMatcher(a=x, b=z, autojunk=False).quick_ratio())
                    oo.remove(y)
                    if not decide.texts_definitely_differ(x, y, vocab):
                        definite = False
                if not definite:
                    r["undecided"] = r.get("undecided", 0) + 1
                    rep.notes.append("U7: %s: the delivered value is written differently from the reference and the "
                                     "difference is not a small resolved edit: undecided, not reported" % path)
                    continue
            if va == vo and a and o:
                msg = ("%s now delivers `%s` under a different condition than the reference: current when `%s`, "
                       "reference when `%s`" % (path, va[:160], a[0].split(" => ", 1)[0][:400],
                                                o[0].split(" => ", 1)[0][:400]))
            else:
                msg = ("%s now delivers a different value than the reference: current `%s` vs reference `%s`"
                       % (path, va[:300], vo[:300]))
            rep.add(Finding("U7", path, "store-changed", msg, b["file"], b["line"]))
    return r



# ---------------------------------------------------------------------------
# U8: which error, under which condition

REJECTS = os.path.join(os.path.dirname(SPEC), "reject_formulas.json")
U8_RX = re.compile(r"^parser::message_parser::")


def extract_rejects(F):
    res = {}
    for b in targets(F):
        if not U8_RX.search(b["path"]):
            continue
        ex = AcceptExtract(F, b)
        try:
            ex.run_accept()
        except RecursionError:
            continue
        by = {}
        for nm, f in ex.rejects:
            by[nm] = f_or(by.get(nm, FALSE), f)
        if by:
            res[b["path"]] = (by, b)
    return res


def u8(rep, F):
    r = rep.rule("U8", "which error, when: for every MessageParser primitive and every ParseError variant it "
                       "constructs itself, the condition under which that variant is returned (missing mandatory "
                       "field, duplicate, invalid format ..) is logically equivalent to the reviewed reference",
                 floor=3)
    if not os.path.exists(REJECTS):
        rep.fail_closed("U8: spec/reject_formulas.json missing")
        return r
    spec = json.load(open(REJECTS))["functions"]
    cur = extract_rejects(F)
    vocab = reference_vocabulary()
    for path in sorted(set(spec) | set(cur)):
        if path not in cur or path not in spec:
            # errors built somewhere the extractor does not follow (a helper, a closure): not decided, but counted
            r["instances"] += len(spec.get(path) or [1])
            r["undecided"] = r.get("undecided", 0) + 1
            rep.notes.append("U8: %s: %s" % (path, "new (not in the reference)" if path in cur else
                                             "its error exits are no longer visible to the extractor: undecided"))
            continue
        by, b = cur[path]
        for nm in sorted(set(by) | set(spec[path])):
            r["instances"] += 1
            f = by.get(nm, FALSE)
            g = guards.from_json(spec[path][nm]["f"]) if nm in spec[path] else FALSE
            if structural(f) == structural(g):
                continue
            rw, who = decide.rewritten(F, path)
            if rw:
                r["undecided"] = r.get("undecided", 0) + 1
                rep.notes.append("U8: %s restructured (%d units): undecided" % (path, rw))
                continue
            verdict, info = decide.definite_difference(f, g, vocab)
            if verdict == "different":
                rep.add(Finding("U8", path, "reject:%s" % nm,
                                "%s now returns ParseError::%s under a different condition than the reference (e.g. "
                                "when %s): the error a caller sees for the same defect changed"
                                % (path, nm, ", ".join("%s=%s" % (k_[:60], v_) for k_, v_ in sorted(info.items())[:4])),
                                b["file"], b["line"]))
            elif verdict == "undecided":
                r["undecided"] = r.get("undecided", 0) + 1
                rep.notes.append("U8: %s / %s differs from the reference only in unresolved terms: undecided" % (path, nm))
    return r
