"""N-rules (amounts / rates) and T-rules (dates / times)."""
import re
from .common import Finding
from .facts import walk, is_call, lit_val, peel, callee
from . import grammar as G


def _fn_bodies(F):
    return [b for b in F.bodies if "body" in b and not b.get("exp") and b["kind"] in ("Fn", "AssocFn")]


def float_parse_sites(F):
    out = []
    for b in _fn_bodies(F):
        for n in walk(b["body"]):
            if n.get("k") == "mcall" and n.get("m") == "parse" and (n.get("ga") or [None])[0] in ("f64", "f32"):
                out.append((b, n))
            if n.get("k") == "call" and re.search(r"(f64|f32) as std::str::FromStr>::from_str|f64::from_str", n.get("f") or ""):
                out.append((b, n))
    return out


def n1(rep, F):
    r = rep.rule("N1", "one float parser: text becomes f64 only in swift_utils::parse_amount, and there the "
                       "str::parse::<f64> call is dominated by a shape test that admits ASCII digits and the "
                       "decimal separator only (`if !<input>...all(is_ascii_digit ..) { return Err }`)", floor=1)
    sites = float_parse_sites(F)
    if not sites:
        rep.fail_closed("N1: no str::parse::<f64> site found at all (anchor lost)")
        return r
    for b, n in sites:
        r["instances"] += 1
        r["analysed"] += 1
        if b["path"] != "fields::swift_utils::parse_amount":
            rep.add(Finding("N1", b["path"], "float-parse",
                            "%s converts text to f64 with str::parse outside swift_utils::parse_amount: NaN, inf, "
                            "exponents and signs are accepted as an amount here" % b["path"], b["file"], n.get("ln")))
            continue
        guard = _shape_guard_before(b, n)
        if not guard:
            # the same fact read from the accept condition: Ok is returned only when every character of the
            # input passed a digit-or-separator test (however the test is spelled)
            guard = _accept_implies_digits(rep, F, b)
        if guard is None:
            rep.notes.append("N1: the accept condition of parse_amount contains terms the extractor cannot "
                             "resolve; the shape guard is undecided")
            continue
        if not guard:
            rep.add(Finding("N1", b["path"], "no-shape-guard",
                            "parse_amount hands the text to str::parse::<f64> without first restricting it to "
                            "digits and one decimal separator: 'NaN', 'inf', '1e3', '+5', '-5', '.5' are accepted "
                            "as amounts (and NaN serialises to JSON null)", b["file"], n.get("ln")))
    return r


def _accept_implies_digits(rep, F, b):
    """True / False / None (undecided)"""
    import itertools
    from . import accept, guards, decide
    try:
        f = accept.AcceptExtract(F, b).run_accept()
    except RecursionError:
        return None
    A = sorted(guards.atoms_of(f))
    digit_atoms = [a for a in A if re.match(r"^ALL\[p0\.chars\(\)\]\(", a) and "IS_ASCII_DIGIT" in a]
    if not digit_atoms:
        vocab = accept.reference_vocabulary()
        return None if any(decide.opaque(a, vocab) for a in A) else False
    if len(A) > 16:
        return None
    for bits in itertools.product([False, True], repeat=len(A)):
        val = dict(zip(A, bits))
        if not guards.thresholds_consistent(val):
            continue
        if guards.ev(f, val) and not any(val[a] for a in digit_atoms):
            return False
    return True


def _shape_guard_before(b, site):
    """an earlier top-level `if` whose condition applies an ASCII-digit predicate over the characters of the
    input and whose then-branch leaves with Err"""
    body = b["body"]
    stmts = list(body.get("stmts") or [])
    if body.get("expr") is not None:
        stmts.append(body["expr"])
    for st in stmts:
        if any(x is site for x in walk(st)):
            return False
        cand = st
        if cand.get("k") == "if":
            cond = cand["cond"]
            digit = any(x.get("k") in ("mcall", "call") and (x.get("m") == "is_ascii_digit" or
                                                            (x.get("f") or "").endswith("is_ascii_digit"))
                        for x in walk(cond))
            leaves = any(x.get("k") == "ret" and _is_err(x.get("e")) for x in walk(cand["then"]))
            if digit and leaves:
                return True
    return False


def _is_err(e):
    while isinstance(e, dict) and e.get("k") == "block" and not e.get("stmts"):
        e = e.get("expr")
    return isinstance(e, dict) and e.get("k") == "call" and (e.get("f") or "").endswith("::Err")


def amount_types(ft):
    out = []
    for t in ft.types:
        fl = ft.struct_fields(t)
        f64s = [n for n, ty in fl if ty in ("f64", "std::option::Option<f64>")]
        if f64s:
            cur = [n for n, ty in fl if "currency" in n and "String" in ty]
            out.append((t, f64s, cur))
    return out


def float_renderings(F, b, selfty, seen=None):
    """how f64 values are turned into text in a body (follows crate-local helpers that take f64)"""
    seen = seen or set()
    out = []
    for n in walk(b["body"]):
        k = n.get("k")
        if k == "fmt":
            for p in n["pieces"]:
                if isinstance(p, dict) and p.get("ty") in ("f64", "&f64", "f32"):
                    out.append(("fixed", p.get("prec"), n.get("ln"), b))
        if k == "mcall" and n.get("m") == "to_string" and (n.get("rt") or "").lstrip("&") == "f64":
            out.append(("to_string", None, n.get("ln"), b))
        if k in ("call", "mcall"):
            f = callee(n)
            if f == "fields::swift_utils::format_swift_amount_for_currency":
                a = n.get("args") or []
                cur = peel(a[1]) if len(a) > 1 else None
                amt = peel(a[0]) if a else None
                out.append(("currency", (amt, cur), n.get("ln"), b))
            elif f == "fields::swift_utils::format_swift_amount":
                a = n.get("args") or []
                d = lit_val(a[1]) if len(a) > 1 else None
                out.append(("fixed", d, n.get("ln"), b))
            else:
                hb = F.body_by_path.get(f)
                if hb is not None and "body" in hb and not hb.get("exp") and hb["path"] not in seen \
                        and "f64" in (hb.get("inputs") or []) and hb["path"].startswith("fields::"):
                    seen.add(hb["path"])
                    out += float_renderings(F, hb, selfty, seen)
    return out


def n2_n3(rep, F, ft):
    r2 = rep.rule("N2", "currency-aware amounts: a field type with an f64 amount and a currency renders the "
                        "amount only through format_swift_amount_for_currency(self.amount, &self.currency) and "
                        "parses it through the currency-aware decimal check", floor=14)
    r3 = rep.rule("N3", "precision pairing: a field type without currency that renders its f64 with fixed "
                        "precision P rejects more than P decimals when parsing", floor=3)
    for t, f64s, cur in amount_types(ft):
        name = G.short(t)
        sb = ft.fn(t, "to_swift_string")
        pb = ft.fn(t, "parse")
        if sb is None or pb is None:
            continue
        rend = float_renderings(F, sb, t)
        parse_calls = {callee(n) for n in walk(pb["body"]) if n.get("k") in ("call", "mcall")}
        cur_aware_parse = any(c in parse_calls for c in ("fields::swift_utils::parse_amount_with_currency",
                                                         "fields::swift_utils::validate_amount_decimals"))
        if cur:
            r2["instances"] += 1
            r2["analysed"] += 1
            if not rend:
                rep.add(Finding("N2", sb["path"], "no-rendering", "%s: cannot see how the amount is rendered" % name,
                                sb["file"], sb["line"]))
            for kind, info, ln, wb in rend:
                if kind == "currency":
                    amt, c = info
                    ok = isinstance(c, dict) and c.get("k") == "field" and c.get("name") in cur
                    if not ok:
                        rep.add(Finding("N2", sb["path"], "foreign-currency",
                                        "%s formats its amount for a currency other than its own field" % name,
                                        sb["file"], ln))
                else:
                    rep.add(Finding("N2", sb["path"], "%s:%s" % (kind, info),
                                    "%s::to_swift_string renders the amount with %s instead of the precision of "
                                    "its currency: amounts of 3-decimal currencies lose their last digit and "
                                    "0-decimal currencies gain decimals on the way out"
                                    % (name, "fixed precision %s" % info if kind == "fixed" else "f64::to_string"),
                                    sb["file"], ln))
            if not cur_aware_parse:
                rep.add(Finding("N2", pb["path"], "parse:no-currency-decimals",
                                "%s::parse accepts any number of decimals for any currency (no "
                                "parse_amount_with_currency / validate_amount_decimals)" % name, pb["file"], pb["line"]))
        else:
            r3["instances"] += 1
            r3["analysed"] += 1
            fixed = [x for x in rend if x[0] == "fixed"]
            if fixed:
                p = fixed[0][1]
                if not _decimal_limit_in_parse(pb):
                    rep.add(Finding("N3", pb["path"], "decimals>%s" % p,
                                    "%s renders its value with %s decimals but its parser accepts more: the value "
                                    "changes when the accepted text is serialised again" % (name, p),
                                    pb["file"], pb["line"]))
    return r2, r3


def _decimal_limit_in_parse(pb):
    """the parser looks at the fractional part (split/find on the separator followed by a length comparison)"""
    sep = False
    lencmp = False
    for n in walk(pb["body"]):
        if n.get("k") == "mcall" and n.get("m") in ("find", "rfind", "split", "split_once", "rsplit_once", "split_at"):
            for a in n.get("args") or []:
                if lit_val(peel(a)) in (",", "."):
                    sep = True
        if n.get("k") == "bin" and n.get("op") in (">", "<=", ">=", "<") and \
                any(x.get("k") == "mcall" and x.get("m") == "len" for x in walk(n)):
            lencmp = True
    return sep and lencmp


# ---------------------------------------------------------------------------
# dates

DATE_CTORS = ("NaiveDate::from_ymd_opt", "NaiveDate::from_ymd", "NaiveDate::parse_from_str",
              "NaiveDate::from_yo_opt", "NaiveDateTime::parse_from_str")
DATE_HOME = ("fields::swift_utils::parse_date_yymmdd", "fields::swift_utils::parse_date_yyyymmdd")


def t1(rep, F):
    r = rep.rule("T1", "one century rule: chrono dates are constructed from text only inside "
                       "swift_utils::parse_date_yymmdd / parse_date_yyyymmdd, and century arithmetic "
                       "(1900/2000 + two-digit year, pivot comparisons) occurs nowhere else; a four-digit-year "
                       "pattern (%Y) on both sides of a JSON codec is exempt", floor=4)
    n_sites = 0
    for b in _fn_bodies(F):
        if b["path"].startswith(("sample::", "plugin::generate", "scenario_config::")):
            continue
        for n in walk(b["body"]):
            if n.get("k") in ("call", "mcall") and any((n.get("f") or "").endswith(s) for s in DATE_CTORS):
                n_sites += 1
                r["instances"] += 1
                if b["path"] in DATE_HOME:
                    continue
                # parse_from_str with a %Y pattern has no century decision
                pats = [lit_val(a) for a in n.get("args") or [] if isinstance(lit_val(a), str)]
                if (n.get("f") or "").endswith("parse_from_str") and pats and all("%Y" in p for p in pats):
                    continue
                rep.add(Finding("T1", b["path"], "date-ctor:%s" % (n.get("f") or "").rsplit("::", 1)[-1],
                                "%s builds a calendar date itself (%s) instead of delegating to "
                                "parse_date_yymmdd: it carries its own century rule" % (b["path"], n.get("f")),
                                b["file"], n.get("ln")))
            if n.get("k") == "bin" and n.get("op") == "+":
                for side, other in ((n["l"], n["r"]), (n["r"], n["l"])):
                    if lit_val(side) in (1900, 2000) and b["path"] not in DATE_HOME:
                        r["instances"] += 1
                        rep.add(Finding("T1", b["path"], "century:%s" % lit_val(side),
                                        "%s decides the century of a two-digit year itself (%s + yy): the same "
                                        "six digits mean a different date here than in parse_date_yymmdd"
                                        % (b["path"], lit_val(side)), b["file"], n.get("ln")))
    # the pivot inside the home function
    home = F.body_by_path.get(DATE_HOME[0])
    if home is None:
        rep.fail_closed("T1: parse_date_yymmdd not found")
    else:
        pivots = []
        # the century decision: an `if <local> <op> <literal>` whose branches add 2000 / 1900 to that local
        for n in walk(home["body"]):
            if n.get("k") != "if":
                continue
            c = peel(n.get("cond"))
            if not (isinstance(c, dict) and c.get("k") == "bin" and c.get("op") in ("<=", "<", ">=", ">")
                    and isinstance(lit_val(c.get("r")), int)):
                continue
            l = peel(c["l"])
            if not (isinstance(l, dict) and l.get("k") == "local"):
                continue
            lits = {lit_val(x) for x in walk([n.get("then"), n.get("else")]) if x.get("k") == "lit"}
            if lits & {1900, 2000}:
                pivots.append((c["op"], lit_val(c["r"])))
        r["pivot"] = pivots
        r["instances"] += 1
        if pivots != [("<=", 49)] and pivots != [("<", 50)]:
            rep.add(Finding("T1", home["path"], "pivot:%s" % pivots,
                            "parse_date_yymmdd uses the century window %s; the documented window is 00-49 -> 20yy, "
                            "50-99 -> 19yy" % pivots, home["file"], home["line"]))
    if n_sites < 3:
        rep.fail_closed("T1: only %d date construction sites found" % n_sites)
    # times: a clock time is built from separately range-checked hours and minutes (from_hms_opt); constructors
    # that take one combined quantity accept component overflow (minutes 60..99 roll over into the hour)
    for b in F.bodies:
        if "body" not in b or b.get("exp") or "/tests" in (b.get("file") or ""):
            continue
        if b["path"].startswith(("sample::", "scenario_config::", "plugin::generate")):
            continue
        for n in walk(b["body"]):
            if n.get("k") in ("call", "mcall"):
                f = n.get("inst") or n.get("f") or ""
                if "NaiveTime" in f and f.rsplit("::", 1)[-1] in ("from_num_seconds_from_midnight_opt",
                                                                 "from_num_seconds_from_midnight",
                                                                 "from_hms_milli_opt", "from_hms_micro_opt",
                                                                 "from_hms_nano_opt"):
                    r["instances"] += 1
                    rep.add(Finding("T1", b["path"], "time-ctor:%s" % f.rsplit("::", 1)[-1],
                                    "%s builds a clock time with %s: hours and minutes are not checked separately, "
                                    "digits such as 1275 are accepted here and rejected by parse_time_hhmm"
                                    % (b["path"], f.rsplit("::", 1)[-1]), b["file"], n.get("ln")))
    return r


def t2(rep, F, ft):
    r = rep.rule("T2", "validator reachability: every field type that stores a chrono NaiveDate / NaiveTime "
                       "obtains it in `parse` from parse_date_yymmdd / parse_time_hhmm (calendar / clock "
                       "validation) and renders it with %y%m%d / %H%M; date components kept as text are "
                       "validated by one of those functions before being stored", floor=15)
    for t in ft.types:
        fl = ft.struct_fields(t)
        dates = [n for n, ty in fl if "chrono::NaiveDate" in ty and "NaiveDateTime" not in ty]
        times = [n for n, ty in fl if "chrono::NaiveTime" in ty]
        texty = [n for n, ty in fl if re.search(r"date|time", n) and "String" in ty]
        if not (dates or times or texty):
            continue
        name = G.short(t)
        pb = ft.fn(t, "parse")
        sb = ft.fn(t, "to_swift_string")
        if pb is None or sb is None:
            continue
        r["analysed"] += 1
        pcalls = {callee(n) for n in walk(pb["body"]) if n.get("k") in ("call", "mcall")}
        # helpers one level deep
        for c in list(pcalls):
            hb = F.body_by_path.get(c)
            if hb is not None and "body" in hb and hb["path"].startswith("fields::"):
                pcalls |= {callee(n) for n in walk(hb["body"]) if n.get("k") in ("call", "mcall")}
        pats = [n["v"] for n in walk(sb["body"]) if n.get("k") == "lit" and n.get("t") == "str" and "%" in n["v"]]
        for d in dates:
            r["instances"] += 1
            if "fields::swift_utils::parse_date_yymmdd" not in pcalls and \
                    "fields::swift_utils::parse_datetime_yymmddhhmm" not in pcalls:
                rep.add(Finding("T2", pb["path"], "date:%s" % d,
                                "%s.%s is a calendar date that `parse` does not obtain from parse_date_yymmdd"
                                % (name, d), pb["file"], pb["line"]))
            if not any("%y%m%d" in p for p in pats) and not _manual_yymmdd(sb, d):
                rep.add(Finding("T2", sb["path"], "render-date:%s" % d,
                                "%s.%s is not rendered with %%y%%m%%d (patterns used: %s): the digits written "
                                "differ from the digits read" % (name, d, pats), sb["file"], sb["line"]))
        for tm in times:
            r["instances"] += 1
            if "fields::swift_utils::parse_time_hhmm" not in pcalls and \
                    "fields::swift_utils::parse_datetime_yymmddhhmm" not in pcalls:
                rep.add(Finding("T2", pb["path"], "time:%s" % tm,
                                "%s.%s is a clock time that `parse` does not obtain from parse_time_hhmm"
                                % (name, tm), pb["file"], pb["line"]))
            if not any("%H%M" in p for p in pats):
                rep.add(Finding("T2", sb["path"], "render-time:%s" % tm,
                                "%s.%s is not rendered with %%H%%M (patterns: %s)" % (name, tm, pats),
                                sb["file"], sb["line"]))
        for x in texty:
            r["instances"] += 1
            validated = any(c.startswith("fields::swift_utils::parse_date") or
                            c.startswith("fields::swift_utils::parse_time") or "from_ymd_opt" in c or
                            "from_hms_opt" in c for c in pcalls)
            # a validator call must take (part of) the stored text; approximated by: some date/time validator
            # other than the one feeding the chrono-typed fields is called
            n_valid = sum(1 for n in walk(pb["body"]) if n.get("k") in ("call", "mcall") and
                          (callee(n).startswith("fields::swift_utils::parse_date") or
                           callee(n).startswith("fields::swift_utils::parse_time") or
                           "from_ymd_opt" in callee(n) or "from_hms_opt" in callee(n)))
            if n_valid <= len(dates) + len(times):
                rep.add(Finding("T2", pb["path"], "text-date:%s" % x,
                                "%s.%s keeps a date/time component as text and no calendar/clock validation is "
                                "applied to it: impossible values (e.g. month 99) are accepted" % (name, x),
                                pb["file"], pb["line"]))
    return r


def _manual_yymmdd(sb, d):
    """`format!("{:02}{:02}{:02}", self.d.year() % 100, self.d.month(), self.d.day())`"""
    for n in walk(sb["body"]):
        if n.get("k") != "fmt":
            continue
        phs = [p for p in n["pieces"] if isinstance(p, dict)]
        args = n.get("args") or []
        got = []
        for p in phs:
            if p.get("arg") is None or p["arg"] >= len(args):
                continue
            a = args[p["arg"]]
            if p.get("width") != 2 or not p.get("zero"):
                continue
            what = None
            x = peel(a)
            if isinstance(x, dict) and x.get("k") == "bin" and x.get("op") == "%" and lit_val(x.get("r")) == 100:
                inner = peel(x["l"])
                if isinstance(inner, dict) and inner.get("k") == "mcall" and inner.get("m") == "year" and \
                        _is_self_field(inner["recv"], d):
                    what = "yy"
            elif isinstance(x, dict) and x.get("k") == "mcall" and x.get("m") in ("month", "day") and \
                    _is_self_field(x["recv"], d):
                what = x["m"]
            if what:
                got.append(what)
        if got[:3] == ["yy", "month", "day"] or [g for g in got if g in ("yy", "month", "day")] == ["yy", "month", "day"]:
            return True
    return False


def _is_self_field(n, d):
    n = peel(n)
    return isinstance(n, dict) and n.get("k") == "field" and n.get("name") == d


def strftime_census(rep, F):
    r = rep.rule("T3", "pattern census: hand-written JSON date/time codecs use the same strftime pattern in "
                       "serialize and deserialize, and a two-digit-year pattern (%y) is never parsed with a "
                       "private pivot", floor=4)
    mods = {}
    for b in _fn_bodies(F):
        if b["name"] in ("serialize", "deserialize") and b["path"].startswith("fields::") and not b.get("impl_self"):
            mod = b["path"].rsplit("::", 1)[0]
            pats = [n["v"] for n in walk(b["body"]) if n.get("k") == "lit" and n.get("t") == "str" and "%" in n["v"]]
            mods.setdefault(mod, {})[b["name"]] = (pats, b)
    for mod, d in sorted(mods.items()):
        r["instances"] += 1
        r["analysed"] += 1
        s = d.get("serialize")
        de = d.get("deserialize")
        if not s or not de:
            continue
        sp, sb = s
        dp_, db = de
        if sp and dp_ and set(sp) != set(dp_):
            rep.add(Finding("T3", db["path"], "pattern-mismatch",
                            "%s writes %s and reads %s" % (mod, sp, dp_), db["file"], db["line"]))
        if any("%y" in p for p in sp) and not dp_:
            # two-digit year written, hand-rolled reading
            uses_home = any(callee(n) in DATE_HOME for n in walk(db["body"]) if n.get("k") in ("call", "mcall"))
            if not uses_home:
                rep.add(Finding("T3", db["path"], "private-two-digit-year",
                                "%s writes a two-digit year (%s) and reads it back with its own century logic "
                                "instead of parse_date_yymmdd: JSON and MT disagree on the date near the window "
                                "boundary" % (mod, sp), db["file"], db["line"]))
    return r


# ---------------------------------------------------------------------------
# T4: hand-written range guards on clock / calendar components

# constructor -> per argument position (lowest, highest) value the component can take
CHRONO_RANGES = {
    "from_hms_opt": [(0, 23), (0, 59), (0, 59)],
    "from_hms_milli_opt": [(0, 23), (0, 59), (0, 59), (0, 999)],
    "from_ymd_opt": [None, (1, 12), (1, 31)],
    "with_hour": [None, (0, 23)], "with_minute": [None, (0, 59)], "with_second": [None, (0, 59)],
    "with_month": [None, (1, 12)], "with_day": [None, (1, 31)],
}


def t4(rep, F):
    """a value handed to a chrono constructor as hour / minute / second / month / day: every comparison of that value
    with a literal in the same function that *leaves* (rejects) must not cut into the component's range — a guard
    `minutes >= 59` rejects a time the constructor, the MT parser and the serialiser all accept"""
    r = rep.rule("T4", "range guards agree with the calendar: a local passed to NaiveTime::from_hms_opt / "
                       "NaiveDate::from_ymd_opt (hour, minute, second, month, day position) is never rejected by a "
                       "hand-written comparison for a value inside the component's range (0-23, 0-59, 1-12, 1-31)",
                 floor=16)
    for b in _fn_bodies(F):
        comps = {}      # local id -> (lo, hi, what)
        for n in walk(b["body"]):
            if n.get("k") not in ("call", "mcall"):
                continue
            nm = callee(n).rsplit("::", 1)[-1]
            rg = CHRONO_RANGES.get(nm)
            if not rg or "chrono" not in (n.get("f") or n.get("inst") or callee(n)):
                continue
            args = list(n.get("args") or [])
            if n.get("k") == "mcall":
                args = [n.get("recv")] + args
            for i, a in enumerate(args):
                if i < len(rg) and rg[i] is not None:
                    x = peel(a)
                    while isinstance(x, dict) and x.get("k") == "cast":
                        x = peel(x["e"])
                    if isinstance(x, dict) and x.get("k") == "local":
                        comps[x["id"]] = (rg[i][0], rg[i][1], "%s argument %d" % (nm, i))
        if not comps:
            continue
        r["analysed"] += 1
        r["instances"] += len(comps)       # one obligation per component local: no guard cuts into its range
        for n in walk(b["body"]):
            if n.get("k") != "if":
                continue
            t = n.get("then")
            leaves = any(x.get("k") == "ret" for x in walk(t)) and \
                any(x.get("k") == "call" and (x.get("f") or "").endswith("::Err") for x in walk(t))
            if not leaves:
                continue
            for c in walk(n.get("cond")):
                if c.get("k") != "bin" or c.get("op") not in (">", ">=", "<", "<=", "==", "!="):
                    continue
                l_, r_ = peel(c["l"]), peel(c["r"])
                op = c["op"]
                if isinstance(r_, dict) and r_.get("k") == "local" and isinstance(lit_val(l_), int):
                    l_, r_ = r_, l_
                    op = {">": "<", "<": ">", ">=": "<=", "<=": ">=", "==": "==", "!=": "!="}[op]
                v = lit_val(r_)
                if not (isinstance(l_, dict) and l_.get("k") == "local" and l_.get("id") in comps) or \
                        not isinstance(v, int) or isinstance(v, bool):
                    continue
                lo, hi, what = comps[l_["id"]]
                r["guards"] = r.get("guards", 0) + 1
                # values of [lo, hi] the guard rejects
                rej = [x for x in range(lo, hi + 1) if
                       (op == ">" and x > v) or (op == ">=" and x >= v) or (op == "<" and x < v) or
                       (op == "<=" and x <= v) or (op == "==" and x == v)]
                if op == "!=":
                    continue
                # a disjunction / conjunction around the comparison only adds rejections when it is an `||` chain;
                # inside `&&` the comparison alone does not reject
                if rej and not _under_and(n.get("cond"), c):
                    rep.add(Finding("T4", b["path"], "range:%s%s%d" % (what.split(" ")[0], op, v),
                                    "%s rejects %s = %s (`%s %s %d`) although the component ranges over %d..=%d: a "
                                    "value the MT side accepts and writes is refused here"
                                    % (b["path"], l_.get("oname") or l_.get("name"), rej[0], l_.get("oname") or
                                       l_.get("name"), op, v, lo, hi), b["file"], c.get("ln")))
    return r


def _under_and(cond, target):
    """target sits below an `&&` inside cond"""
    def go(n, under):
        if n is target:
            return under
        if isinstance(n, dict):
            u2 = under or (n.get("k") == "bin" and n.get("op") == "&&")
            for k, v in n.items():
                if isinstance(v, (dict, list)):
                    res = go(v, u2)
                    if res is not None:
                        return res
        elif isinstance(n, list):
            for x in n:
                res = go(x, under)
                if res is not None:
                    return res
        return None
    return bool(go(cond, False))
