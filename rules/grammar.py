"""A1 (message grammar by may-flow from parse call sites to struct fields) and
A2 (serialiser append sequence) over the resolved shape trees."""
import re
from .facts import walk, is_call, lit_val, peel, place, callee

PARSE_FNS = {
    "MessageParser::<'a>::parse_field": ("mandatory", False),
    "MessageParser::<'a>::parse_optional_field": ("optional", False),
    "MessageParser::<'a>::parse_variant_field": ("mandatory", True),
    "MessageParser::<'a>::parse_optional_variant_field": ("optional", True),
    "MessageParser::<'a>::parse_repeated_field": ("repeated", False),
    "parser::utils::parse_repeated_field": ("repeated", False),
}

DETECT_FNS = ("MessageParser::<'a>::detect_field", "MessageParser::<'a>::detect_variant_optional",
              "MessageParser::<'a>::peek_field_variant")


def parse_kind(n):
    if not isinstance(n, dict) or n.get("k") not in ("call", "mcall"):
        return None
    f = n.get("f") or ""
    for suf, kv in PARSE_FNS.items():
        if f.endswith(suf):
            return kv
    return None


class AV:
    """abstract value: which parse sites / struct instances may flow here"""
    __slots__ = ("atoms", "tup")

    def __init__(self, atoms=(), tup=None):
        self.atoms = set(atoms)
        self.tup = tup

    def union(self, o):
        if o is None:
            return self
        r = AV(self.atoms | o.atoms)
        if self.tup and o.tup and len(self.tup) == len(o.tup):
            r.tup = [a.union(b) for a, b in zip(self.tup, o.tup)]
        else:
            r.tup = self.tup or o.tup
        return r

    def flat(self):
        s = set(self.atoms)
        if self.tup:
            for t in self.tup:
                s |= t.flat()
        return s


class Site:
    def __init__(self, sid, node, kind, variant, fn):
        self.id = sid
        self.node = node
        self.kind = kind
        self.variant = variant
        self.tag = None
        a = node.get("args") or []
        # method call: args[0] = tag ; free fn parse_repeated_field(parser, tag)
        for x in a:
            v = lit_val(x)
            if isinstance(v, str):
                self.tag = v
                break
        ga = node.get("ga") or []
        self.ty = ga[0] if ga else None
        self.ln = node.get("ln")
        self.fn = fn
        self.consumer = None
        self.if_node = None
        self.loops = ()
        self.conds = ()
        self.order = 0

    def __repr__(self):
        return "Site(%s %s %s %s @%s)" % (self.id, self.kind, self.tag, (self.ty or "").split("::")[-1], self.ln)


class StructInst:
    def __init__(self, iid, node, loops):
        self.id = iid
        self.path = node.get("path") or node.get("t")
        self.ty = node.get("t")
        self.ln = node.get("ln")
        self.fields = {}
        self.field_locals = {}
        self.conds = ()
        self.loops = loops
        self.in_closure = False


class Grammar:
    """result of A1 for one message type"""

    def __init__(self):
        self.sites = []
        self.structs = []
        self.ret = AV()
        self.loops = {}       # loop id -> {"cond":node,"ln":..,"detect":[tags],"parent":id}
        self.unknown = []     # shapes the analysis could not follow
        self.entry = None
        self.fns = []         # bodies analysed (entry + inlined)
        self.completeness = []   # calls to verify_parser_complete / is_complete with order
        self.ok_exits = []       # (order, ln, kind)
        self.caps = []           # loop caps: (loop id, literal, ln)


class Flow:
    def __init__(self, facts, entry):
        self.F = facts
        self.g = Grammar()
        self.g.entry = entry
        self.order = 0
        self.depth = 0
        self.loopstack = []
        self.condstack = []
        self.fnstack = []
        self.ifnodes = {}
        self.dup = False       # MessageParser::new starts with allow_duplicates = false

    # -- environment handling --------------------------------------------
    def bind(self, pat, av, env):
        if not isinstance(pat, dict):
            return
        k = pat.get("k")
        if k == "bind":
            env[pat["id"]] = env.get(pat["id"], AV()).union(av)
            if pat.get("sub"):
                self.bind(pat["sub"], av, env)
        elif k == "ptup":
            ps = pat.get("pats") or []
            for i, p in enumerate(ps):
                if av.tup and i < len(av.tup):
                    self.bind(p, av.tup[i].union(AV()), env)
                else:
                    self.bind(p, AV(av.atoms), env)
        elif k == "pts":
            ps = pat.get("pats") or []
            if len(ps) == 1:
                self.bind(ps[0], av, env)   # Some(x) / Ok(x) / Variant(x): transparent
            else:
                for p in ps:
                    self.bind(p, AV(av.flat()), env)
        elif k == "pstruct":
            for f in pat.get("fields") or []:
                pr = self._project(av, f.get("name"))
                self.bind(f["pat"], pr if pr is not None else AV(av.flat()), env)
        elif k in ("pref", "pguard"):
            self.bind(pat.get("pat"), av, env)
        elif k == "por":
            for p in pat.get("pats") or []:
                self.bind(p, av, env)

    # -- evaluation ---------------------------------------------------------
    def ev(self, n, env, consumer=None):
        if n is None:
            return AV()
        if isinstance(n, list):
            r = AV()
            for x in n:
                if isinstance(x, (dict, list)):
                    r = r.union(self.ev(x, env))
            return r
        if not isinstance(n, dict):
            return AV()
        k = n.get("k")
        m = getattr(self, "ev_" + k, None) if k else None
        if m:
            return m(n, env, consumer)
        # generic: union over children
        r = AV()
        for key, v in n.items():
            if isinstance(v, (dict, list)) and key not in ("pat", "pats"):
                r = r.union(self.ev(v, env))
        return r

    def ev_lit(self, n, env, c):
        return AV()

    def _project(self, av, fname):
        """component `fname` of the struct instances in av (None when av holds no instance with such a field)"""
        out = None
        for a in av.flat():
            if a[0] == "S":
                inst = self.g.structs[a[1]]
                if fname in inst.fields:
                    out = (out or AV()).union(inst.fields[fname])
        return out

    def ev_field(self, n, env, c):
        base = self.ev(n.get("e"), env)
        pr = self._project(base, n.get("name"))
        return pr if pr is not None else base

    def ev_fmt(self, n, env, c):
        for a in n.get("args") or []:
            self.ev(a, env)
        return AV()

    def ev_local(self, n, env, c):
        return env.get(n["id"], AV())

    def ev_def(self, n, env, c):
        return AV()

    def ev_block(self, n, env, c):
        for s in n.get("stmts") or []:
            self.ev(s, env)
        return self.ev(n.get("expr"), env, c) if n.get("expr") is not None else AV()

    def ev_let(self, n, env, c):
        i0 = n.get("init")
        if isinstance(i0, dict) and i0.get("k") == "mcall" and i0.get("m") == "with_duplicates":
            v = lit_val((i0.get("args") or [None])[0])
            self.dup = v if isinstance(v, bool) else None
        if isinstance(i0, dict) and is_call(i0, "MessageParser::<'a>::new"):
            self.dup = False
        av = self.ev(n.get("init"), env, "let") if n.get("init") is not None else AV()
        self.bind(n["pat"], av, env)
        if n.get("els"):
            self.ev(n["els"], env)
        return AV()

    def ev_letx(self, n, env, c):
        pat = n["pat"]
        cons = c
        if pat.get("k") == "pts" and (pat.get("path") or "").endswith("::Ok"):
            cons = (c or "letx") + ":Ok"
        elif pat.get("k") == "pts" and (pat.get("path") or "").endswith("::Some"):
            cons = (c or "letx") + ":Some"
        av = self.ev(n["init"], env, cons)
        self.bind(pat, av, env)
        return AV()

    def ev_try(self, n, env, c):
        return self.ev(n["e"], env, "try")

    def ev_ret(self, n, env, c):
        cons = "ret" if len(self.fnstack) == 1 else self.fnstack[-1].get("consumer") or "ret"
        av = self.ev(n.get("e"), env, cons)
        self.fnstack[-1]["ret"] = self.fnstack[-1]["ret"].union(av)
        e = n.get("e")
        self.note_exit(e, n.get("ln"))
        return AV()

    def note_exit(self, e, ln):
        if self.fnstack[-1].get("name") != "parse_from_block4":
            return
        while isinstance(e, dict) and e.get("k") == "block" and not e.get("stmts"):
            e = e.get("expr")
        if isinstance(e, dict) and e.get("k") == "call" and e.get("ctor"):
            kind = (e.get("f") or "").rsplit("::", 1)[-1]
            self.g.ok_exits.append({"order": self.order, "ln": e.get("ln") or ln, "kind": kind,
                                    "loops": tuple(self.loopstack), "conds": tuple(self.condstack)})
        elif e is not None:
            self.g.ok_exits.append({"order": self.order, "ln": ln, "kind": "expr",
                                    "loops": tuple(self.loopstack), "conds": tuple(self.condstack)})

    def ev_if(self, n, env, c):
        cond = n["cond"]
        ccons = "if"
        before = len(self.g.completeness)
        sbefore = len(self.g.sites)
        self.ifnodes[id(n)] = n
        self.ev(cond, env, ccons)
        for ce in self.g.completeness[before:]:
            ce["if"] = n
        for st in self.g.sites[sbefore:]:
            st.if_node = n
        self.condstack.append(("if", id(n), True))
        r = self.ev(n["then"], env, c)
        self.condstack.pop()
        if n.get("else") is not None:
            self.condstack.append(("if", id(n), False))
            r = r.union(self.ev(n["else"], env, c))
            self.condstack.pop()
        return r

    def ev_match(self, n, env, c):
        self.ifnodes[id(n)] = n
        # `match r { Ok(v) => v, Err(e) => return Err(e) }` is the long spelling of `r?`; an Err arm that only leaves
        # the loop (`Err(_) => break`) or yields a default discards the error like `while let Ok` / `if let Ok`
        mc = "match"
        for arm in n.get("arms") or []:
            p_ = arm.get("pat") or {}
            while p_.get("k") == "pref":
                p_ = p_.get("pat") or {}
            if (p_.get("path") or "").endswith("::Err"):
                b_ = arm.get("body")
                rets = [x for x in ([b_] if isinstance(b_, dict) and b_.get("k") == "ret" else
                                    [s for s in walk(b_)] if isinstance(b_, dict) else []) if x.get("k") == "ret"]
                if rets and all(any(y.get("k") == "call" and y.get("ctor") and (y.get("f") or "").endswith("::Err")
                                    for y in walk(r_.get("e"))) if r_.get("e") is not None else False for r_ in rets):
                    mc = "try"
                else:
                    mc = "match:Ok"
        sv = self.ev(n["e"], env, mc)
        r = AV()
        for i, arm in enumerate(n.get("arms") or []):
            self.bind(arm["pat"], sv, env)
            self.condstack.append(("arm", id(n), i))
            if arm.get("guard"):
                self.ev(arm["guard"], env)
            r = r.union(self.ev(arm["body"], env, c))
            self.condstack.pop()
        return r

    def _loop(self, n, env, cond, body, kind):
        lid = len(self.g.loops)
        detect = []
        if cond is not None:
            for x in walk(cond):
                if is_call(x, *DETECT_FNS):
                    for a in x.get("args") or []:
                        if isinstance(lit_val(a), str):
                            detect.append(lit_val(a))
        self.g.loops[lid] = {"ln": n.get("ln"), "detect": detect, "kind": kind,
                             "parent": self.loopstack[-1] if self.loopstack else None,
                             "cond": cond, "body": body, "fn": self.fnstack[-1]["path"],
                             "conds": tuple(self.condstack)}
        self.loopstack.append(lid)
        if cond is not None:
            self.ev(cond, env, "while")
        self.ev(body, env)
        # second pass so that values assigned late in the body reach early uses (may-flow fixpoint, 2 rounds suffice for acyclic lets)
        self.loopstack.pop()
        return AV()

    def ev_while(self, n, env, c):
        return self._loop(n, env, n["cond"], n["body"], "while")

    def ev_loop(self, n, env, c):
        return self._loop(n, env, None, n["body"], "loop")

    def ev_for(self, n, env, c):
        it = self.ev(n["iter"], env)
        self.bind(n["pat"], AV(it.flat()), env)
        return self._loop(n, env, None, n["body"], "for")

    def ev_closure(self, n, env, c):
        # parameters of a closure are filled by whoever calls it: unknown to this analysis
        self._cdepth = getattr(self, "_cdepth", 0) + (1 if n.get("params") else 0)
        try:
            return self.ev(n["body"], env)
        finally:
            self._cdepth -= (1 if n.get("params") else 0)

    def ev_tup(self, n, env, c):
        return AV((), [self.ev(x, env).union(AV()) for x in n["es"]])

    def ev_assign(self, n, env, c):
        r0 = n["r"]
        if isinstance(r0, dict) and r0.get("k") == "mcall" and r0.get("m") == "with_duplicates":
            v = lit_val((r0.get("args") or [None])[0])
            self.dup = v if isinstance(v, bool) else None
        rv = self.ev(n["r"], env, "assign")
        l = n["l"]
        if l.get("k") == "local":
            env[l["id"]] = env.get(l["id"], AV()).union(rv)
        else:
            p = peel(l)
            while isinstance(p, dict) and p.get("k") in ("field", "index"):
                p = peel(p["e"])
            if isinstance(p, dict) and p.get("k") == "local":
                env[p["id"]] = env.get(p["id"], AV()).union(AV(rv.flat()))
        return AV()

    def ev_struct(self, n, env, c):
        inst = StructInst(len(self.g.structs), n, tuple(self.loopstack))
        self.g.structs.append(inst)
        inst.conds = tuple(self.condstack)
        inst.ifnodes = self.ifnodes
        inst.in_closure = getattr(self, "_cdepth", 0) > 0
        for f in n.get("fields") or []:
            inst.fields[f["name"]] = self.ev(f["e"], env)
            fe = peel(f["e"])
            if isinstance(fe, dict) and fe.get("k") == "local":
                inst.field_locals[f["name"]] = fe["id"]
        if n.get("base") is not None:
            self.ev(n["base"], env)
        return AV([("S", inst.id)])

    def ev_call(self, n, env, c):
        return self._call(n, env, c)

    def ev_mcall(self, n, env, c):
        return self._call(n, env, c)

    def _call(self, n, env, c):
        pk = parse_kind(n)
        f = n.get("f") or ""
        args = n.get("args") or []
        if pk:
            if n.get("k") == "mcall":
                self.ev(n.get("recv"), env)
            for a in args:
                self.ev(a, env)
            s = Site(len(self.g.sites), n, pk[0], pk[1], self.fnstack[-1]["path"])
            self.order += 1
            s.order = self.order
            s.consumer = c
            s.loops = tuple(self.loopstack)
            s.conds = tuple(self.condstack)
            s.dup = self.dup
            s.nodes = self.ifnodes
            self.g.sites.append(s)
            return AV([("P", s.id)])
        if f.endswith("parser::utils::verify_parser_complete") or f.endswith("MessageParser::<'a>::is_complete"):
            self.order += 1
            self.g.completeness.append({"order": self.order, "ln": n.get("ln"), "consumer": c,
                                        "what": f.rsplit("::", 1)[-1], "loops": tuple(self.loopstack),
                                        "conds": tuple(self.condstack), "fn": self.fnstack[-1]["path"]})
            return AV()
        if n.get("k") == "call" and n.get("ctor"):
            # Some(x) / Ok(x) / Enum::Variant(x): transparent wrapper
            r = AV()
            for a in args:
                r = r.union(self.ev(a, env, c if f.endswith("::Ok") or f.endswith("::Some") else None))
            if len(self.fnstack) == 1 and f.endswith("::Ok") and c in (None, "ret", "tail"):
                pass
            return r
        # crate-local helper taking the parser: inline
        target = None
        if n.get("k") in ("call", "mcall"):
            cal = callee(n)
            b = self.F.body_by_path.get(cal)
            if b is not None and "body" in b and not b.get("exp") and self._mentions_parser(b) \
                    and not b["path"].startswith("parser::"):
                target = b
        if target is not None and self.depth < 4:
            return self.inline(target, n, env, c)
        # method on a tracked value: value-preserving adapters
        r = AV()
        if n.get("k") == "mcall":
            m = n.get("m")
            cons = None
            if m in ("ok", "unwrap_or", "unwrap_or_default", "unwrap_or_else", "is_ok", "is_err",
                     "unwrap", "expect", "or", "or_else", "err", "is_ok_and", "map_or", "map_or_else"):
                cons = "m:" + m
            elif m in ("map", "and_then", "map_err", "ok_or", "ok_or_else", "transpose", "flatten",
                       "inspect", "inspect_err"):
                cons = c
            rv = self.ev(n.get("recv"), env, cons)
            if m == "push" and args:
                av = self.ev(args[0], env)
                p = peel(n["recv"])
                if isinstance(p, dict) and p.get("k") == "local":
                    env[p["id"]] = env.get(p["id"], AV()).union(AV(av.flat()))
                return AV()
            if m in ("extend", "append", "insert", "push_str") and args:
                av = AV()
                for a in args:
                    av = av.union(self.ev(a, env))
                p = peel(n["recv"])
                if isinstance(p, dict) and p.get("k") == "local":
                    env[p["id"]] = env.get(p["id"], AV()).union(AV(av.flat()))
                return AV()
            if m in ("is_empty", "len", "is_some", "is_none", "is_ok", "is_err", "contains",
                     "detect_field", "starts_with"):
                for a in args:
                    self.ev(a, env)
                return AV()
            r = r.union(AV(rv.flat()) if rv.tup is None else rv)
        for a in args:
            r = r.union(AV(self.ev(a, env).flat()))
        if n.get("fe") is not None:
            self.ev(n["fe"], env)
        return r

    def _mentions_parser(self, b):
        for t in b.get("inputs") or []:
            if "MessageParser" in t:
                return True
        # wrappers fn(block4:&str) -> Result<Self,..> that build their own parser
        if b["name"] == "parse_from_block4":
            return True
        return False

    def inline(self, b, n, env, c):
        self.depth += 1
        self.g.fns.append(b["path"])
        fenv = {}
        args = list(n.get("args") or [])
        if n.get("k") == "mcall":
            args = [n.get("recv")] + args
        for p, a in zip(b.get("params") or [], args):
            self.bind(p, self.ev(a, env), fenv)
        self.fnstack.append({"path": b["path"], "ret": AV(), "name": b["name"], "consumer": c})
        tail = self.ev(b["body"], fenv, c)
        for te in tail_exprs(b["body"]):
            self.note_exit(te, te.get("ln"))
        fr = self.fnstack.pop()
        self.depth -= 1
        return fr["ret"].union(tail)

    # -- driver -------------------------------------------------------------
    def run(self):
        b = self.g.entry
        self.g.fns.append(b["path"])
        self.fnstack.append({"path": b["path"], "ret": AV(), "name": b["name"], "consumer": "tail"})
        # a pure wrapper (trait fn { MTnnn::parse_from_block4(block4) }) is followed by inlining
        tail = self.ev(b["body"], {}, "tail")
        for te in tail_exprs(b["body"]):
            self.note_exit(te, te.get("ln"))
        fr = self.fnstack.pop()
        self.g.ret = fr["ret"].union(tail)
        return self.g


def analyse_parser(F, body):
    return Flow(F, body).run()


def tail_exprs(n):
    """tail expression(s) of a body: through blocks, if/else, match arms"""
    while isinstance(n, dict):
        k = n.get("k")
        if k == "block":
            if n.get("expr") is None:
                return []
            n = n["expr"]
        elif k == "if":
            out = tail_exprs(n["then"])
            if n.get("else") is not None:
                out += tail_exprs(n["else"])
            return out
        elif k == "match":
            out = []
            for a in n.get("arms") or []:
                out += tail_exprs(a["body"])
            return out
        else:
            return [n]
    return []


# ---------------------------------------------------------------------------
# A2: serialiser sequence

APPEND_FNS = {
    "parser::utils::append_field": "mandatory",
    "parser::utils::append_optional_field": "optional",
    "parser::utils::append_vec_field": "repeated",
}


class Append:
    def __init__(self, kind, path, ln, loops, conds, ty=None, how="append"):
        self.kind = kind
        self.path = path      # tuple: ('self','transactions','[]','field_21')
        self.ln = ln
        self.loops = loops
        self.conds = conds
        self.ty = ty
        self.how = how

    def __repr__(self):
        return "Append(%s %s @%s)" % (self.kind, ".".join(self.path or ("?",)), self.ln)


class SerWalk:
    """ordered list of field emissions of a to_mt_string body"""

    def __init__(self, F, body):
        self.F = F
        self.body = body
        self.appends = []
        self.loops = []
        self.conds = []
        self.unknown = []
        self.depth = 0

    def resolve(self, n, env):
        """place path of an expression, through loop/if-let bindings"""
        n = peel(n)
        parts = []
        while isinstance(n, dict):
            k = n.get("k")
            if k == "field":
                parts.append(n["name"])
                n = peel(n["e"])
            elif k == "index":
                parts.append("[]")
                n = peel(n["e"])
            elif k == "local":
                base = env.get(n["id"])
                if base is None:
                    base = (n["name"],)
                return tuple(base) + tuple(reversed(parts))
            elif k == "mcall" and n.get("m") in ("unwrap", "expect", "iter", "enumerate", "as_ref",
                                                 "as_deref", "flatten", "into_iter"):
                n = peel(n["recv"])
            else:
                return None
        return None

    def bindpat(self, pat, path, env):
        if not isinstance(pat, dict) or path is None:
            return
        k = pat.get("k")
        if k == "bind":
            env[pat["id"]] = path
        elif k == "pts" and len(pat.get("pats") or []) == 1:
            self.bindpat(pat["pats"][0], path, env)
        elif k == "ptup":
            ps = pat.get("pats") or []
            # (idx, item) from enumerate(): bind the last component
            if ps:
                self.bindpat(ps[-1], path, env)
        elif k == "pref":
            self.bindpat(pat.get("pat"), path, env)

    def walk(self, n, env):
        if n is None:
            return
        if isinstance(n, list):
            for x in n:
                if isinstance(x, (dict, list)):
                    self.walk(x, env)
            return
        if not isinstance(n, dict):
            return
        k = n.get("k")
        if k == "fmt":
            self.walk(n.get("args"), env)
        elif k == "block":
            for s in n.get("stmts") or []:
                self.walk(s, env)
            self.walk(n.get("expr"), env)
        elif k == "let":
            init = n.get("init")
            self.walk(init, env)
            p = self.resolve(init, env) if init is not None else None
            if p:
                self.bindpat(n["pat"], p, env)
        elif k == "if":
            c = n["cond"]
            self.walk_cond(c, env)
            self.conds.append(("if", id(n), True))
            self.walk(n["then"], env)
            self.conds.pop()
            if n.get("else") is not None:
                self.conds.append(("if", id(n), False))
                self.walk(n["else"], env)
                self.conds.pop()
        elif k == "match":
            p = self.resolve(n["e"], env)
            self.walk(n["e"], env)
            for i, arm in enumerate(n.get("arms") or []):
                if p:
                    self.bindpat(arm["pat"], p, env)
                self.conds.append(("arm", id(n), i))
                self.walk(arm["body"], env)
                self.conds.pop()
        elif k == "for":
            p = self.resolve(n["iter"], env)
            self.walk(n["iter"], env)
            if p:
                self.bindpat(n["pat"], p + ("[]",), env)
            self.loops.append(id(n))
            self.walk(n["body"], env)
            self.loops.pop()
        elif k in ("while", "loop"):
            self.loops.append(id(n))
            if n.get("cond") is not None:
                self.walk_cond(n["cond"], env)
            self.walk(n["body"], env)
            self.loops.pop()
        elif k in ("call", "mcall"):
            self.call(n, env)
        elif k == "closure":
            self.walk(n["body"], env)
        else:
            for key, v in n.items():
                if isinstance(v, (dict, list)) and key not in ("pat", "pats"):
                    self.walk(v, env)

    def walk_cond(self, c, env):
        if isinstance(c, dict) and c.get("k") == "letx":
            p = self.resolve(c["init"], env)
            self.walk(c["init"], env)
            if p:
                self.bindpat(c["pat"], p + ("?",) if (c["pat"].get("path") or "").endswith("Some") else p, env)
        elif isinstance(c, dict) and c.get("k") == "bin" and c.get("op") in ("&&", "||"):
            self.walk_cond(c["l"], env)
            self.walk_cond(c["r"], env)
        else:
            self.walk(c, env)

    def call(self, n, env):
        f = n.get("f") or ""
        for suf, kind in APPEND_FNS.items():
            if f.endswith(suf):
                args = n.get("args") or []
                p = self.resolve(args[1], env) if len(args) > 1 else None
                if kind == "mandatory" and p:
                    # append_field on the element of a loop over a vector / on the payload of an if-let:
                    # the component is written once per element / when present
                    if p[-1] == "[]":
                        kind = "repeated"
                        p = p[:-1]
                        if p and p[-1] == "?":
                            p = p[:-1]
                    elif p[-1] == "?":
                        kind = "optional"
                        p = p[:-1]
                self.appends.append(Append(kind, p, n.get("ln"), tuple(self.loops), tuple(self.conds),
                                           ty=(n.get("ga") or [None])[0]))
                if p is None:
                    self.unknown.append(("append with unresolved place", n.get("ln")))
                return
        # hand-rolled: <out>.push_str(&X.to_swift_string())
        if n.get("k") == "mcall" and n.get("m") == "push_str":
            a = (n.get("args") or [None])[0]
            inner = peel(a)
            if isinstance(inner, dict) and is_call(inner, "SwiftField::to_swift_string", "::to_swift_string"):
                tgt = inner.get("recv") if inner.get("k") == "mcall" else (inner.get("args") or [None])[0]
                p = self.resolve(tgt, env)
                kind = "mandatory"
                if p and p[-1] == "[]":
                    kind = "repeated"
                    p = p[:-1]
                    if p and p[-1] == "?":
                        p = p[:-1]
                elif p and p[-1] == "?":
                    kind = "optional"
                    p = p[:-1]
                self.appends.append(Append(kind, p, n.get("ln"), tuple(self.loops), tuple(self.conds),
                                           ty=inner.get("rt"), how="push_str"))
                return
        # inherent wrapper / helper: inline crate-local callee that receives the output string
        cal = callee(n)
        b = self.F.body_by_path.get(cal)
        if b is not None and "body" in b and not b.get("exp") and self.depth < 3 and \
                (b["name"] == "to_mt_string" or any("String" in t and "&mut" in t for t in b.get("inputs") or [])):
            self.depth += 1
            fenv = {}
            args = list(n.get("args") or [])
            if n.get("k") == "mcall":
                args = [n.get("recv")] + args
            for p, a in zip(b.get("params") or [], args):
                pp = self.resolve(a, env)
                if pp is not None:
                    self.bindpat(p, pp, fenv)
            self.walk(b["body"], fenv)
            self.depth -= 1
            return
        if n.get("k") == "mcall":
            self.walk(n.get("recv"), env)
        for a in n.get("args") or []:
            self.walk(a, env)


def analyse_serialiser(F, body):
    w = SerWalk(F, body)
    env = {}
    for p in body.get("params") or []:
        if p.get("k") == "bind" and p.get("name") == "self":
            env[p["id"]] = ("self",)
    w.walk(body["body"], env)
    return w


# ---------------------------------------------------------------------------
# type helpers

_OPT = re.compile(r"^std::option::Option<(.*)>$")
_VEC = re.compile(r"^std::vec::Vec<(.*)>$")


def unwrap_ty(t):
    """returns (kind, inner) with kind in mandatory/optional/repeated"""
    kind = "mandatory"
    m = _OPT.match(t)
    if m:
        kind = "optional"
        t = m.group(1)
    m = _VEC.match(t)
    if m:
        kind = "repeated"
        t = m.group(1)
    return kind, t


def message_types(F):
    """[(self type path, impl)] of every impl SwiftMessageBody"""
    out = []
    for i in F.impls_of("traits::SwiftMessageBody"):
        out.append(i["self"])
    return sorted(out)


def short(t):
    return (t or "?").rsplit("::", 1)[-1]
