"""G-rules: message grammar (parser <-> serialiser <-> model), shared by C01, C02, C03, C09."""
import re
from .common import Finding
from .facts import walk, is_call, lit_val, peel, place, callee
from . import grammar as G
from .fieldtab import FieldTab

LETTERS = [chr(c) for c in range(65, 91)]


class TypeModel:
    def __init__(self, F, T, ft):
        self.F = F
        self.T = T
        self.name = G.short(T)
        self.ft = ft
        self.pb = F.fn(T, "parse_from_block4", "SwiftMessageBody")
        self.sb = F.fn(T, "to_mt_string", "SwiftMessageBody")
        self.g = G.analyse_parser(F, self.pb) if self.pb and "body" in self.pb else None
        self.w = G.analyse_serialiser(F, self.sb) if self.sb and "body" in self.sb else None
        self.file = (self.pb or {}).get("file")
        # the function that really contains the steps (wrapper followed)
        self.pfn = self.pb["path"] if self.pb else None
        if self.g and self.g.sites:
            # the function that holds the first step (the inherent parse_from_block4 when the trait fn delegates)
            self.pfn = self.g.sites[0].fn
        self.sfn = self.sb["path"] if self.sb else None

    def model_structs(self):
        """struct instances of crate message structs reachable from the Ok return"""
        if not self.g:
            return []
        out = []
        seen = set()
        todo = [a for a in self.g.ret.flat() if a[0] == "S"]
        while todo:
            a = todo.pop()
            if a in seen:
                continue
            seen.add(a)
            inst = self.g.structs[a[1]]
            if not (inst.path or "").startswith("messages::"):
                continue
            out.append(inst)
            for av in inst.fields.values():
                for b in av.flat():
                    if b[0] == "S":
                        todo.append(b)
        return sorted(out, key=lambda i: i.id)

    def field_sites(self, inst, fname):
        av = inst.fields.get(fname)
        if av is None:
            return []
        return sorted((self.g.sites[a[1]] for a in av.flat() if a[0] == "P"), key=lambda s: s.order)

    def field_structs(self, inst, fname):
        av = inst.fields.get(fname)
        if av is None:
            return []
        return [self.g.structs[a[1]] for a in av.flat() if a[0] == "S"]


def models(F):
    ft = FieldTab(F)
    out = []
    for T in G.message_types(F):
        out.append(TypeModel(F, T, ft))
    return out, ft


# ---------------------------------------------------------------------------

def _leaves_with_err(n):
    """does this branch always leave the function with an Err (return Err(..) / Err tail)?"""
    if n is None:
        return False
    k = n.get("k")
    if k == "block":
        stmts = n.get("stmts") or []
        for s in stmts:
            if s.get("k") == "ret":
                return _is_err(s.get("e"))
        if n.get("expr") is not None:
            return _leaves_with_err(n["expr"])
        return False
    if k == "ret":
        return _is_err(n.get("e"))
    if k == "if":
        return n.get("else") is not None and _leaves_with_err(n["then"]) and _leaves_with_err(n["else"])
    return False


def _is_err(e):
    e = e
    while isinstance(e, dict) and e.get("k") == "block" and not e.get("stmts"):
        e = e.get("expr")
    return isinstance(e, dict) and e.get("k") == "call" and (e.get("f") or "").endswith("::Err")


def g1(rep, tms):
    """completeness before success"""
    r = rep.rule("G1", "every Ok exit of parse_from_block4 is dominated by an end-of-input check placed "
                       "after the last parse step (verify_parser_complete(..)? or `if !is_complete() "
                       "{return Err}`)", floor=30)
    for tm in tms:
        r["analysed"] += 1
        r["instances"] += 1
        g = tm.g
        if g is None:
            rep.fail_closed("G1: no parse_from_block4 body for %s" % tm.T)
            continue
        last_site = max([s.order for s in g.sites], default=0)
        good = None
        for c in g.completeness:
            if c["loops"] or c["conds"]:
                continue
            if c["what"] == "verify_parser_complete" and c["consumer"] == "try":
                ok = True
            elif c["what"] == "is_complete" and c.get("if") is not None:
                ifn = c["if"]
                cond = ifn["cond"]
                neg = isinstance(cond, dict) and cond.get("k") == "un" and cond.get("op") == "!"
                ok = (neg and _leaves_with_err(ifn["then"])) or \
                     (not neg and ifn.get("else") is not None and _leaves_with_err(ifn["else"]))
            else:
                ok = False
            if ok and c["order"] > last_site:
                good = c
        early = [e for e in g.ok_exits if e["kind"] == "Ok" and good is not None and e["order"] < good["order"]]
        if good is None:
            caps = _loop_caps(tm)
            for cp in caps:
                r["instances"] += 1
                rep.add(Finding("G1", tm.pfn, "%s:cap:%s" % (tm.name, cp.split(" at line")[0].replace(" ", "")),
                                "%s::parse_from_block4 stops repeating at a cap (%s) and has no end-of-input check: "
                                "repetitions beyond the cap are accepted and dropped" % (tm.name, cp), tm.file,
                                int(cp.rsplit(" ", 1)[-1]) if cp.rsplit(" ", 1)[-1].isdigit() else None))
            rep.add(Finding("G1", tm.pfn, tm.name,
                            "%s::parse_from_block4 returns Ok without checking that the cursor reached the "
                            "end of block 4: trailing / unknown / surplus fields are accepted and dropped%s"
                            % (tm.name, (" (loop caps that silently stop: %s)" % caps) if caps else ""),
                            tm.file, (tm.pb or {}).get("line")))
        elif early:
            rep.add(Finding("G1", tm.pfn, tm.name + ":early-ok",
                            "an Ok(..) return at line %s precedes the completeness check" % early[0]["ln"],
                            tm.file, early[0]["ln"]))
    return r


def _loop_caps(tm):
    caps = []
    for lid, lp in tm.g.loops.items():
        for part in (lp.get("cond"), lp.get("body")):
            if part is None:
                continue
            for n in walk(part):
                if n.get("k") == "bin" and n.get("op") in ("<", ">=", ">", "<=") \
                        and isinstance(lit_val(n.get("r")), int) \
                        and isinstance(n.get("l"), dict) and n["l"].get("k") == "mcall" and n["l"].get("m") == "len":
                    caps.append("%s %s at line %s" % (n["op"], lit_val(n["r"]), n.get("ln")))
    return sorted(set(caps))


DISCARD = ("while:Ok", "if:Ok", "letx:Ok", "while:Some", "m:ok", "m:unwrap_or", "m:unwrap_or_default",
           "m:unwrap_or_else", "m:is_ok", "m:is_err", "m:or", "m:or_else", "m:err", "m:is_ok_and",
           "m:map_or", "m:map_or_else", "match:Ok")
PROPAGATE = ("try", "ret", "tail")


def g3(rep, tms, F):
    r = rep.rule("G3", "the Result of every parse step is propagated (`?`/returned); `while let Ok`, "
                       "`if let Ok`, `.ok()`, `unwrap_or*` discard a content error after the cursor moved",
                 floor=300)
    for tm in tms:
        if tm.g is None:
            continue
        r["analysed"] += 1
        for s in tm.g.sites:
            r["instances"] += 1
            c = s.consumer
            if c in PROPAGATE:
                continue
            inst = "%s:%s" % (s.tag, G.short(s.ty))
            if c in DISCARD:
                rep.add(Finding("G3", tm.pfn, inst,
                                "result of %s::<%s>(\"%s\") is consumed by `%s`: a field with invalid content "
                                "is consumed and its error discarded (message accepted with the field dropped)"
                                % (s.node.get("m") or s.node.get("f"), G.short(s.ty), s.tag, c),
                                tm.file, s.ln))
            else:
                rep.add(Finding("G3", tm.pfn, inst + ":unclassified",
                                "result of parse step %s(\"%s\") flows to `%s`, which is not a recognised "
                                "propagation idiom" % (s.node.get("m"), s.tag, c), tm.file, s.ln))
    # letter dispatch: a discarding fallback arm must not be the path of a letter the enum has
    from .options import letter_map
    for tm in tms:
        if tm.g is None:
            continue
        for s_ in tm.g.sites:
            if s_.consumer not in DISCARD or not s_.variant:
                continue
            for cnd in s_.conds:
                if cnd[0] != "arm":
                    continue
                node = getattr(s_, "nodes", {}).get(cnd[1])
                if node is None or node.get("k") != "match":
                    continue
                arms = node.get("arms") or []
                if cnd[2] >= len(arms) or arms[cnd[2]]["pat"].get("k") not in ("_", "bind"):
                    continue
                covered = set()
                for j, a in enumerate(arms):
                    lits = _pat_lits(a["pat"])
                    if not lits:
                        continue
                    if any(("arm", cnd[1], j) in o.conds and o.ty == s_.ty and o.consumer in PROPAGATE for o in tm.g.sites):
                        covered |= lits
                base, lm = letter_map(tm.ft, s_.ty)
                r["instances"] += 1
                for letter in sorted(set(lm) - covered - {""}):
                    rep.add(Finding("G3", tm.pfn, "dispatch:%s:%s" % (G.short(s_.ty), letter),
                                    "option %s%s of %s is not handled by its own dispatch arm and falls into the "
                                    "fallback arm, whose parse result is consumed by `%s`: a malformed :%s%s: is consumed "
                                    "and dropped instead of being reported" % (s_.tag, letter, G.short(s_.ty), s_.consumer,
                                                                               s_.tag, letter), tm.file, s_.ln))
    # MessageParser itself + utils: T::parse results must be propagated
    n = 0
    for b in F.bodies:
        if b.get("exp") or "body" not in b:
            continue
        if not (b["path"].startswith("parser::message_parser::") or b["path"].startswith("parser::utils::")):
            continue
        for site in _result_sites(b, ("SwiftField::parse", "SwiftField::parse_with_variant",
                                      "MessageParser::<'a>::parse_field")):
            n += 1
            r["instances"] += 1
            if site["consumer"] not in PROPAGATE:
                rep.add(Finding("G3", b["path"], site["what"],
                                "in %s the result of %s is consumed by `%s` (error discarded)"
                                % (b["path"], site["what"], site["consumer"]), b["file"], site["ln"]))
    r["parser_internal_sites"] = n
    return r


def _pat_lits(p):
    k = p.get("k")
    if k == "plit" and isinstance(p.get("v"), str):
        return {p["v"]}
    if k == "por":
        out = set()
        for q in p["pats"]:
            out |= _pat_lits(q)
        return out
    return set()


def _result_sites(b, suffixes):
    """call sites of fallible calls in a body with their syntactic consumer"""
    out = []

    def rec(n, cons):
        if isinstance(n, list):
            for x in n:
                rec(x, None)
            return
        if not isinstance(n, dict):
            return
        k = n.get("k")
        if k in ("call", "mcall") and is_call(n, *suffixes):
            out.append({"what": (n.get("f") or "").split("::")[-1], "ln": n.get("ln"), "consumer": cons or "other"})
        if k == "try":
            rec(n["e"], "try")
            return
        if k == "ret":
            rec(n.get("e"), "ret")
            return
        if k == "letx":
            p = n["pat"]
            c = "letx"
            if p.get("k") == "pts" and (p.get("path") or "").endswith("::Ok"):
                c = (cons or "letx") + ":Ok"
            rec(n["init"], c)
            return
        if k == "while":
            rec(n["cond"], "while")
            rec(n["body"], None)
            return
        if k == "if":
            rec(n["cond"], "if")
            rec(n["then"], cons)
            rec(n.get("else"), cons)
            return
        if k == "mcall":
            m = n.get("m")
            if m in ("map_err", "map", "and_then"):
                rec(n["recv"], cons)
            elif m in ("ok", "unwrap_or", "unwrap_or_default", "is_ok", "is_err", "unwrap_or_else"):
                rec(n["recv"], "m:" + m)
            else:
                rec(n["recv"], None)
            rec(n.get("args"), None)
            return
        if k == "block":
            rec(n.get("stmts"), None)
            if n.get("expr") is not None:
                rec(n["expr"], cons if cons in ("tail", "try", "ret") else cons)
            return
        if k == "call" and n.get("ctor") and (n.get("f") or "").endswith(("::Ok", "::Some")):
            rec(n.get("args"), None)
            return
        if k == "match":
            # `match r { Ok(v) => .., Err(e) => return Err(..) }` is the long spelling of `r.map_err(..)?`
            c_ = "match"
            for a in n.get("arms") or []:
                p_ = a.get("pat") or {}
                if (p_.get("path") or "").endswith("::Err") and _leaves_with_err(a.get("body")):
                    c_ = "try"
            rec(n["e"], c_)
            for a in n.get("arms") or []:
                rec(a["body"], cons)
            return
        for key, v in n.items():
            if isinstance(v, (dict, list)) and key not in ("pat", "pats"):
                rec(v, None)

    rec(b["body"], "tail")
    return out


def g2(rep, F):
    """anchored extraction"""
    r = rep.rule("G2", "a mandatory field is extracted at the cursor: MessageParser methods that call "
                       "extract_field either test the tag at the cursor first (detect_*) or the extraction "
                       "primitive rejects a non-empty skipped prefix", floor=5)
    efc = F.body_by_path.get("parser::field_extractor::extract_field_content")
    if efc is None:
        rep.fail_closed("G2: anchor parser::field_extractor::extract_field_content not found")
        return r
    anchored_primitive = _extract_is_anchored(efc)
    r["primitive_anchored"] = anchored_primitive
    n = 0
    for b in F.bodies:
        if not b["path"].startswith("parser::message_parser::MessageParser::<'a>::") or "body" not in b:
            continue
        calls = [c for c in walk(b["body"]) if is_call(c, "MessageParser::<'a>::extract_field")]
        if not calls:
            continue
        n += 1
        r["instances"] += 1
        r["analysed"] += 1
        if anchored_primitive:
            continue
        guarded = any(is_call(c, "MessageParser::<'a>::detect_field", "MessageParser::<'a>::detect_variant",
                              "MessageParser::<'a>::detect_variant_optional",
                              "MessageParser::<'a>::peek_field_variant") for c in walk(b["body"]))
        if not guarded:
            rep.add(Finding("G2", b["path"], "extract_field",
                            "%s extracts its tag with a substring search over the remaining text and nothing "
                            "tests that the tag is at the cursor: fields standing between the cursor and a "
                            "later occurrence of the tag are skipped (accepted and dropped)" % b["name"],
                            b["file"], calls[0].get("ln")))
    if n == 0:
        rep.fail_closed("G2: no MessageParser method calls extract_field")
    return r


def _extract_is_anchored(efc):
    """true iff the position found for the marker is compared / the skipped prefix is tested"""
    body = efc["body"]
    finds = []
    for n in walk(body):
        if n.get("k") == "let" and n.get("init") is not None:
            for c in walk(n["init"]):
                if c.get("k") == "mcall" and c.get("m") in ("find", "rfind", "match_indices", "position") \
                        and "str" in (c.get("rt") or ""):
                    if n["pat"].get("k") == "bind":
                        finds.append((n["pat"]["id"], n["pat"]["name"]))
    uses_find = bool(finds)
    if not uses_find:
        # starts_with / strip_prefix based
        return any(x.get("k") == "mcall" and x.get("m") in ("starts_with", "strip_prefix") for x in walk(body))
    ids = {i for i, _ in finds[:1]}   # the marker position is the first find
    for n in walk(body):
        if n.get("k") in ("if", "while"):
            for x in walk(n["cond"]):
                if x.get("k") == "local" and x.get("id") in ids:
                    return True
                # test of the skipped prefix: input[..pos].trim().is_empty()
        if n.get("k") == "match":
            for x in walk(n["e"]):
                if x.get("k") == "local" and x.get("id") in ids:
                    return True
    return False


def seq_of_append(tm, a):
    """(struct type path, field name) an append reads, resolved through the ADT table"""
    if not a.path or a.path[0] != "self":
        return None
    cur = tm.T
    parts = [p for p in a.path[1:] if p not in ("[]", "?")]
    for i, p in enumerate(parts):
        flds = dict(tm.ft.struct_fields(cur))
        if p not in flds:
            return None
        if i == len(parts) - 1:
            return (cur, p, flds[p])
        kind, inner = G.unwrap_ty(flds[p])
        cur = inner
    return None


def g4_g5_g6(rep, tms):
    r4 = rep.rule("G4", "parser and serialiser list the same fields in the same order: walking the appends "
                        "of to_mt_string, the parse steps feeding the appended struct fields have increasing "
                        "program order; every struct field a step can fill is appended exactly once; every "
                        "step feeds an append", floor=300)
    r5 = rep.rule("G5", "tag agreement: the tag literal of a parse step equals the tag its type's "
                        "to_swift_string emits (for option enums: base tag + letter for every variant)",
                  floor=300)
    r6 = rep.rule("G6", "kind agreement: T <-> mandatory step <-> append_field; Option<T> <-> optional "
                        "step <-> append_optional_field; Vec <-> repetition <-> append_vec_field/loop",
                  floor=300)
    for tm in tms:
        if tm.g is None or tm.w is None:
            rep.fail_closed("G4: missing parser or serialiser for %s" % tm.T)
            continue
        r4["analysed"] += 1
        structs = tm.model_structs()
        by_ty = {}
        for inst in structs:
            by_ty.setdefault(inst.path, []).append(inst)
        if tm.T not in by_ty:
            rep.fail_closed("G4: %s::parse_from_block4: no struct expression of the message type "
                            "flows to the Ok return (extractor blind)" % tm.name)
            continue
        appended = {}
        last_order = 0
        used_sites = set()
        for a in tm.w.appends:
            r4["instances"] += 1
            tgt = seq_of_append(tm, a)
            if tgt is None:
                rep.add(Finding("G4", tm.sfn, "append@%s" % ".".join(a.path or ("?",)),
                                "append of an expression that is not a field of the message model",
                                tm.file, a.ln))
                continue
            sty, fname, fty = tgt
            key = (sty, fname)
            appended[key] = appended.get(key, 0) + 1
            if appended[key] > 1:
                rep.add(Finding("G4", tm.sfn, "%s.%s:twice" % (G.short(sty), fname),
                                "%s.%s is appended twice by to_mt_string" % (G.short(sty), fname), tm.file, a.ln))
                continue
            sites = []
            for inst in by_ty.get(sty, []):
                sites += tm.field_sites(inst, fname)
            if not sites and any(getattr(inst, "in_closure", False) for inst in by_ty.get(sty, [])):
                # the value is assembled inside a closure from the closure's parameters (a builder handed to a
                # generic helper): where those come from is not followed
                rep.notes.append("G4: %s.%s is assembled in a closure whose arguments the flow analysis does not "
                                 "follow: undecided" % (G.short(sty), fname))
                continue
            if not sites:
                rep.add(Finding("G4", tm.sfn, "%s.%s:unparsed" % (G.short(sty), fname),
                                "%s.%s is serialised but no parse step can fill it" % (G.short(sty), fname),
                                tm.file, a.ln))
                continue
            # order: some feeding site must come after everything selected so far;
            # alternatives (several sites for one field) are allowed to precede
            later = [s for s in sites if s.order > last_order]
            if not later:
                rep.add(Finding("G4", tm.sfn, "%s.%s:order" % (G.short(sty), fname),
                                "to_mt_string emits %s.%s (tag %s) after fields that the parser reads later: "
                                "serialised text is not in the order the parser expects"
                                % (G.short(sty), fname, "/".join(sorted({s.tag or '?' for s in sites}))),
                                tm.file, a.ln,
                                detail={"sites": [repr(s) for s in sites], "last_order": last_order}))
            else:
                last_order = min(s.order for s in later)
            for s in sites:
                used_sites.add(s.id)
            # ---- G6 kinds -------------------------------------------------
            r6["instances"] += 1
            fkind, inner = G.unwrap_ty(fty)
            # Vec<T> without Option is also a repetition
            akind = a.kind
            if fkind != akind and not (fkind == "repeated" and akind == "repeated"):
                # append_vec_field takes Option<Vec<T>>; a bare Vec appended in a loop is 'repeated'
                rep.add(Finding("G6", tm.sfn, "%s.%s:append-kind" % (G.short(sty), fname),
                                "model field %s.%s has type %s (%s) but is serialised as %s"
                                % (G.short(sty), fname, G.short(fty), fkind, akind), tm.file, a.ln))
            for inst in by_ty.get(sty, []):
                for s in tm.field_sites(inst, fname):
                    deeper = len(s.loops) > len(inst.loops)
                    eff = "repeated" if (deeper or s.kind == "repeated") else s.kind
                    conditional = len(s.conds) > len([c for c in inst_conds(tm, inst)])
                    if fkind == "repeated" and eff != "repeated":
                        rep.add(Finding("G6", s.fn, "%s.%s:%s" % (G.short(sty), fname, s.tag),
                                        "repeatable model field %s.%s is filled by a single (non-loop) parse "
                                        "step" % (G.short(sty), fname), tm.file, s.ln))
                    elif fkind != "repeated" and eff == "repeated":
                        rep.add(Finding("G6", s.fn, "%s.%s:%s" % (G.short(sty), fname, s.tag),
                                        "non-repeatable model field %s.%s is filled from a repetition"
                                        % (G.short(sty), fname), tm.file, s.ln))
                    elif fkind == "mandatory" and eff == "optional":
                        rep.add(Finding("G6", s.fn, "%s.%s:%s" % (G.short(sty), fname, s.tag),
                                        "mandatory model field %s.%s is read by an optional parse step: its "
                                        "absence is not reported as MissingRequiredField for tag %s"
                                        % (G.short(sty), fname, s.tag), tm.file, s.ln))
                    elif fkind == "optional" and eff == "mandatory" and not conditional:
                        rep.add(Finding("G6", s.fn, "%s.%s:%s" % (G.short(sty), fname, s.tag),
                                        "optional model field %s.%s is read by an unconditional mandatory "
                                        "parse step: messages without tag %s are rejected"
                                        % (G.short(sty), fname, s.tag), tm.file, s.ln))
        # a sub-struct built only under a condition must be built whenever any of its (already parsed) parts
        # is present: every local that feeds it from an optional step outside the branch occurs in the condition
        top_conds = len(by_ty[tm.T][0].conds)
        for inst in structs:
            extra = [c for c in inst.conds[top_conds:] if c[0] == "if" and c[2] is True]
            for c in extra:
                ifn = inst.ifnodes.get(c[1])
                if ifn is None:
                    continue
                cond_locals = {x["id"] for x in walk(ifn["cond"]) if x.get("k") == "local"}
                for fname, av in inst.fields.items():
                    outside = [tm.g.sites[a[1]] for a in av.flat() if a[0] == "P" and c not in tm.g.sites[a[1]].conds]
                    if not outside:
                        continue
                    r4["instances"] += 1
                    lid_ = inst.field_locals.get(fname)
                    if lid_ is None or lid_ not in cond_locals:
                        rep.add(Finding("G4", tm.pfn, "%s.%s:conditional-drop" % (G.short(inst.path), fname),
                                        "%s is only built when a condition holds that does not mention `%s` (tag %s), "
                                        "although that field has already been consumed from the text: when only it is "
                                        "present the message is accepted and the field dropped"
                                        % (G.short(inst.path), fname, "/".join(sorted({s.tag or '?' for s in outside}))),
                                        tm.file, ifn.get("ln")))
        # a single-valued model field fed by two steps that can both run on one path: one value overwrites the
        # other (a parsed occurrence is dropped), or one step's value lands in two fields
        for inst in structs:
            flds = dict(tm.ft.struct_fields(inst.path))
            for fname, av in inst.fields.items():
                fk, _ = G.unwrap_ty(flds.get(fname, ""))
                if fk == "repeated":
                    continue
                ss = [tm.g.sites[a[1]] for a in av.flat() if a[0] == "P"]
                ss = [x for x in ss if len(x.loops) <= len(inst.loops)]
                for i in range(len(ss)):
                    for j in range(i + 1, len(ss)):
                        r4["instances"] += 1
                        if not _exclusive(ss[i], ss[j], inst.ifnodes):
                            rep.add(Finding("G4", tm.pfn, "%s.%s:overwrite:%s+%s" % (G.short(inst.path), fname, ss[i].tag, ss[j].tag),
                                            "%s.%s can be filled by two parse steps (tags %s at line %s and %s at line %s) "
                                            "that are not alternatives of one branch: when both occurrences are present "
                                            "one of them is consumed and dropped" % (G.short(inst.path), fname, ss[i].tag,
                                                                                     ss[i].ln, ss[j].tag, ss[j].ln),
                                            tm.file, ss[j].ln))
        # every struct field that a step can fill is appended; every step feeds an append
        for inst in structs:
            for fname, av in inst.fields.items():
                has_src = any(x[0] == "P" for x in av.flat())
                if has_src and (inst.path, fname) not in appended:
                    tags = "/".join(sorted({tm.g.sites[x[1]].tag or "?" for x in av.flat() if x[0] == "P"}))
                    rep.add(Finding("G4", tm.sfn, "%s.%s:not-appended" % (G.short(inst.path), fname),
                                    "%s.%s (tag %s) is parsed but never written by to_mt_string: accepted "
                                    "content is lost on serialisation" % (G.short(inst.path), fname, tags),
                                    tm.file, (tm.sb or {}).get("line")))
        for s in tm.g.sites:
            if s.id not in used_sites:
                feeds = any(("P", s.id) in av.flat() for inst in structs for av in inst.fields.values())
                if not feeds:
                    rep.add(Finding("G4", s.fn, "%s:%s:dropped" % (s.tag, G.short(s.ty)),
                                    "parse step for tag %s consumes a field whose value reaches no field of "
                                    "the returned message" % s.tag, tm.file, s.ln))
        # ---- G5 tags ------------------------------------------------------
        r5["analysed"] += 1
        for s in tm.g.sites:
            r5["instances"] += 1
            if s.ty is None or s.tag is None:
                rep.add(Finding("G5", s.fn, "site@%s" % s.order, "parse step without literal tag or type",
                                tm.file, s.ln))
                continue
            em = tm.ft.emitted(s.ty)
            if not tm.ft.can_succeed(s.ty):
                continue      # the step can only fail (its parser has no Ok exit): nothing is re-serialised
            if not em:
                rep.add(Finding("G5", s.fn, "%s:%s" % (s.tag, G.short(s.ty)),
                                "type %s emits no recognisable tag" % G.short(s.ty), tm.file, s.ln))
                continue
            if s.variant:
                bad = sorted(t for t in em if not re.match("^" + re.escape(s.tag) + "[A-Z]?$", t))
            else:
                bad = sorted(t for t in em if t != s.tag)
            if bad:
                rep.add(Finding("G5", tm.pfn, "%s:%s" % (s.tag, G.short(s.ty)),
                                "step reads tag %s%s into %s, whose serialiser can emit %s: the re-serialised "
                                "text carries a tag the parser does not read at this position"
                                % (s.tag, "a" if s.variant else "", G.short(s.ty), ",".join(":%s:" % b for b in bad)),
                                tm.file, s.ln))
    return r4, r5, r6


def _exclusive(a, b, ifnodes=None):
    """two sites lie in different branches of one if / match, or the earlier one sits in a branch that returns"""
    n = 0
    for ca, cb in zip(a.conds, b.conds):
        if ca == cb:
            n += 1
            continue
        if ca[0] == cb[0] and ca[1] == cb[1] and ca[2] != cb[2]:
            return True
        break
    first, second = (a, b) if a.order < b.order else (b, a)
    rest = first.conds[n:]
    if rest and rest[0][0] == "if" and rest[0][2] is True and ifnodes:
        ifn = ifnodes.get(rest[0][1])
        if ifn is not None and _branch_returns(ifn["then"]):
            return True
    return False


def _branch_returns(n):
    if n is None:
        return False
    k = n.get("k")
    if k == "ret":
        return True
    if k == "block":
        for st in n.get("stmts") or []:
            if st.get("k") == "ret":
                return True
        return _branch_returns(n.get("expr")) if n.get("expr") is not None else False
    return False


def inst_conds(tm, inst):
    return ()


def _contiguous(tm, sites):
    return True


def g9(rep, tms):
    r = rep.rule("G9", "repetition needs duplicate mode: a parse step that can run more than once for the same tag "
                       "(it sits in a loop) executes with MessageParser::with_duplicates(true) in force; in "
                       "no-duplicates mode the second occurrence is refused without being consumed, which ends the "
                       "repetition silently (or never ends it)", floor=30)
    for tm in tms:
        if tm.g is None:
            continue
        for s in tm.g.sites:
            if not s.loops:
                continue
            r["instances"] += 1
            if getattr(s, "dup", False) is not True:
                rep.add(Finding("G9", tm.pfn, "%s:%s" % (s.tag, G.short(s.ty)),
                                "the repeated step for tag %s in %s runs while the parser refuses duplicates: the "
                                "second :%s: is not consumed, so later occurrences are dropped from an accepted "
                                "message" % (s.tag, tm.name, s.tag), tm.file, s.ln))
    return r


def _letters_in(F, b, depth, seen):
    """one-letter literals a detector knows: in its body, in the constant tables it reads and in the detectors it
    delegates to"""
    ls = set()
    if b is None or b["path"] in seen or depth > 3:
        return ls
    seen.add(b["path"])
    for n in walk(b.get("body") or {}):
        if n.get("k") == "lit" and n.get("t") in ("str", "char") and isinstance(n.get("v"), str) \
                and len(n["v"]) == 1 and n["v"].isupper():
            ls.add(n["v"])
        if n.get("k") == "def" and n.get("dk") in ("const", "assoc_const", "static"):
            ls |= _letters_in(F, F.body_by_path.get(n.get("def")), depth + 1, seen)
        if n.get("k") in ("call", "mcall"):
            cal = n.get("inst") or n.get("f") or ""
            if cal.startswith("parser::message_parser::") and "detect" in cal.rsplit("::", 1)[-1]:
                ls |= _letters_in(F, F.body_by_path.get(cal), depth + 1, seen)
    return ls


def detector_letters(F):
    """letters known by detect_variant / detect_variant_optional / peek_field_variant"""
    out = {}
    for name in ("detect_variant", "detect_variant_optional", "peek_field_variant"):
        b = F.body_by_path.get("parser::message_parser::MessageParser::<'a>::" + name)
        if b is None:
            continue
        out[name] = _letters_in(F, b, 0, set())
    return out


def g7(rep, tms, F):
    r = rep.rule("G7", "option coverage: the letters of every variant of an option enum parsed by "
                       "parse_(optional_)variant_field are known to the detector used at that call",
                 floor=80)
    det = detector_letters(F)
    if "detect_variant" not in det or "detect_variant_optional" not in det:
        rep.fail_closed("G7: detector functions not found")
        return r
    r["detector_letters"] = {k: "".join(sorted(v)) for k, v in det.items()}
    for tm in tms:
        if tm.g is None:
            continue
        for s in tm.g.sites:
            if not s.variant:
                continue
            r["instances"] += 1
            known = det["detect_variant" if s.kind == "mandatory" else "detect_variant_optional"]
            for vn, tags in sorted(tm.ft.variant_emits(s.ty).items()):
                for t in sorted(tags):
                    letter = t[len(s.tag):] if t.startswith(s.tag) else None
                    if letter and letter not in known:
                        rep.add(Finding("G7", tm.pfn, "%s:%s:%s" % (s.tag, G.short(s.ty), letter),
                                        "option %s%s of %s cannot be detected at this step (detector knows %s): "
                                        "a :%s: field here is skipped or rejected although the model has the "
                                        "variant" % (s.tag, letter, G.short(s.ty), "".join(sorted(known)), t),
                                        tm.file, s.ln))
    return r


def g8(rep, tms):
    r = rep.rule("G8", "a sequence loop conditioned on detect_field(M1)||..||detect_field(Mk) contains, for "
                       "every Mi, an unconditional parse step for Mi in its body (whichever marker opened the "
                       "iteration is consumed: the loop progresses and the occurrence is keyed on its marker)",
                 floor=10)
    for tm in tms:
        if tm.g is None:
            continue
        for lid, lp in tm.g.loops.items():
            if lp["kind"] != "while" or not lp["detect"]:
                continue
            r["instances"] += 1
            inside = sorted([s for s in tm.g.sites if lid in s.loops], key=lambda s: s.order)
            for m in sorted(set(lp["detect"])):
                steps = [s for s in inside if s.tag == m or (s.variant and m.startswith(s.tag or "~"))]
                uncond = [s for s in steps if len(s.conds) <= len(lp["conds"]) or _cond_on_same_tag(s, m)]
                if not uncond:
                    rep.add(Finding("G8", lp["fn"], "loop:%s:%s" % ("|".join(lp["detect"]), m),
                                    "loop on detect_field(%s): no unconditional parse step consumes marker %s "
                                    "in the body (steps for it: %d, all conditional): an iteration opened by "
                                    "%s may consume nothing" % ("|".join(lp["detect"]), m, len(steps), m),
                                    tm.file, lp["ln"]))
            # a marker step whose error is discarded must leave the loop on failure, otherwise a field that
            # fails without consuming (duplicate refused, invalid content) keeps the condition true forever
            for s in inside:
                if s.tag in lp["detect"] and s.consumer in ("if:Ok", "letx:Ok") and s.loops and s.loops[-1] == lid:
                    ifn = getattr(s, "if_node", None)
                    if ifn is not None and not (ifn.get("else") is not None and _leaves_loop(ifn["else"])):
                        rep.add(Finding("G8", lp["fn"], "loop:%s:no-exit-on-error" % "|".join(lp["detect"]),
                                        "loop on detect_field(%s): when the step for %s fails the loop neither "
                                        "breaks nor returns; a field that is refused without being consumed keeps "
                                        "detect_field true and the loop never terminates"
                                        % ("|".join(lp["detect"]), s.tag), tm.file, s.ln))
    return r


def _leaves_loop(n):
    if n is None:
        return False
    k = n.get("k")
    if k in ("break", "ret"):
        return True
    if k == "block":
        for st in n.get("stmts") or []:
            if _leaves_loop(st):
                return True
        return _leaves_loop(n.get("expr")) if n.get("expr") is not None else False
    if k == "if":
        return n.get("else") is not None and _leaves_loop(n["then"]) and _leaves_loop(n["else"])
    return False


def _cond_on_same_tag(s, m):
    return False


def layouts(tms):
    """{struct short name: [(tag, kind)]} in parse order, per model struct"""
    out = {}
    for tm in tms:
        if tm.g is None:
            continue
        for inst in tm.model_structs():
            rows = []
            for fname, av in inst.fields.items():
                for a in av.flat():
                    if a[0] == "P":
                        s = tm.g.sites[a[1]]
                        deeper = len(s.loops) > len(inst.loops)
                        rows.append((s.order, s.tag + ("a" if s.variant else ""), "repeated" if deeper or s.kind == "repeated" else s.kind, G.short(s.ty)))
            rows = sorted(set(rows))
            seq = []
            for o, tag, kind, ty in rows:
                if not seq or seq[-1][:2] != (tag, kind) or seq[-1][2] != ty:
                    seq.append((tag, kind, ty))
            out.setdefault(G.short(inst.path), seq)
    return out


def g10(rep, tms):
    r = rep.rule("G10", "sibling layouts agree: two model structs (of different message types) that read the same "
                        "multiset of tags read them in the same order with the same kinds", floor=2)
    lay = layouts(tms)
    names = sorted(lay)
    for i in range(len(names)):
        for j in range(i + 1, len(names)):
            a, b = lay[names[i]], lay[names[j]]
            ta = sorted(t for t, k, ty in a)
            tb = sorted(t for t, k, ty in b)
            if len(a) < 5 or ta != tb:
                continue
            r["instances"] += 1
            sa = [(t, k) for t, k, ty in a]
            sb = [(t, k) for t, k, ty in b]
            if sa != sb:
                d = next((x for x in range(min(len(sa), len(sb))) if sa[x] != sb[x]), 0)
                rep.add(Finding("G10", names[j], "%s~%s" % (names[i], names[j]),
                                "%s and %s carry the same fields but read them in different orders / kinds (first "
                                "difference at step %d: %s vs %s): one of the two no longer follows the common layout"
                                % (names[i], names[j], d + 1, sa[d] if d < len(sa) else None, sb[d] if d < len(sb) else None)))
    return r


def g11(rep, tms):
    import json as _json
    import os as _os
    r = rep.rule("G11", "layout = reviewed reference: per model struct the sequence of (tag, kind) the parser reads "
                        "equals the reference layout of the type", floor=40)
    path = _os.path.join(_os.path.dirname(_os.path.dirname(_os.path.abspath(__file__))), "spec", "layouts.json")
    if not _os.path.exists(path):
        rep.fail_closed("G11: spec/layouts.json missing")
        return r
    ref_all = _json.load(open(path))
    ref = ref_all["structs"]
    ref_ty = ref_all.get("types") or {}
    lay = layouts(tms)
    by = {}
    for tm in tms:
        if tm.g:
            for inst in tm.model_structs():
                by.setdefault(G.short(inst.path), tm)
    for name in sorted(set(ref) | set(lay)):
        r["instances"] += 1
        if name not in lay or name not in ref:
            rep.notes.append("G11: struct %s is %s" % (name, "new (not in the reference)" if name in lay else "gone"))
            continue
        cur = [[t, k] for t, k, ty in lay[name]]
        cur_ty = [ty for t, k, ty in lay[name]]
        if cur == ref[name] and name in ref_ty and cur_ty != ref_ty[name] and len(cur_ty) == len(ref_ty[name]):
            # same tags and kinds, another field type at a step: for an option position that is another set of
            # option letters (a letter of the documented set falls into the content heuristic or is rejected)
            d = next(x for x in range(len(cur_ty)) if cur_ty[x] != ref_ty[name][x])
            tm = by.get(name)
            rep.add(Finding("G11", tm.pfn if tm else name, "%s:type" % name,
                            "%s reads tag %s with field type %s, the reference layout with %s: the set of accepted "
                            "option letters / the format of that position changed"
                            % (name, cur[d][0], cur_ty[d], ref_ty[name][d]),
                            tm.file if tm else None, (tm.pb or {}).get("line") if tm else None))
            continue
        if cur != ref[name]:
            tm = by.get(name)
            if tm is not None and any(getattr(inst, "in_closure", False) for inst in tm.model_structs()
                                      if G.short(inst.path) == name):
                rep.notes.append("G11: %s is assembled in a closure whose arguments the flow analysis does not "
                                 "follow: layout undecided" % name)
                continue
            d = next((x for x in range(min(len(cur), len(ref[name]))) if cur[x] != ref[name][x]), min(len(cur), len(ref[name])))
            rep.add(Finding("G11", tm.pfn if tm else name, "%s:layout" % name,
                            "%s reads its fields in a different order / with different kinds than the reference layout "
                            "(first difference at step %d: now %s, reference %s): messages laid out as documented are "
                            "no longer accepted in that shape" % (name, d + 1, cur[d] if d < len(cur) else None,
                                                                  ref[name][d] if d < len(ref[name]) else None),
                            tm.file if tm else None, (tm.pb or {}).get("line") if tm else None))
    return r



def loop_guards(tms):
    """{parse function: [sorted marker tags of each detect_field-guarded loop, in source order]}"""
    out = {}
    for tm in tms:
        if tm.g is None:
            continue
        rows = []
        for lid, lp in tm.g.loops.items():
            if lp["kind"] != "while" or not lp["detect"]:
                continue
            rows.append((lp.get("ln") or 0, sorted(set(lp["detect"]))))
        if rows:
            out[tm.name] = [d for _, d in sorted(rows)]
    return out


def g12(rep, tms):
    import json as _json
    import os as _os
    r = rep.rule("G12", "repetition guards = reviewed reference: the set of marker tags on which each repetition loop "
                        "of a message parser is entered (detect_field(M1) || .. || detect_field(Mk)) equals the "
                        "reference set of that loop; a marker dropped from the guard means a repetition that starts "
                        "with that field is never entered", floor=13)
    path = _os.path.join(_os.path.dirname(_os.path.dirname(_os.path.abspath(__file__))), "spec", "layouts.json")
    ref = (_json.load(open(path)).get("loops") if _os.path.exists(path) else None)
    if ref is None:
        rep.fail_closed("G12: spec/layouts.json has no loop guards")
        return r
    cur = loop_guards(tms)
    by = {tm.name: tm for tm in tms}
    for name in sorted(set(ref) | set(cur)):
        a, b = cur.get(name, []), ref.get(name, [])
        r["instances"] += max(len(a), len(b))
        if a == b:
            continue
        tm = by.get(name)
        if len(a) != len(b):
            rep.notes.append("G12: %s has %d marker-guarded loops, the reference %d: loops restructured, undecided"
                             % (name, len(a), len(b)))
            continue
        for i, (x, y) in enumerate(zip(a, b)):
            if x != y:
                lost = sorted(set(y) - set(x))
                rep.add(Finding("G12", tm.pfn if tm else name, "loop%d:%s" % (i, "|".join(x)),
                                "%s enters its repetition loop %d on %s; the reference enters it on %s%s"
                                % (name, i + 1, "|".join(x) or "-", "|".join(y) or "-",
                                   (": a repetition that begins with field %s is never entered and what follows is "
                                    "left unread" % "/".join(lost)) if lost else ""),
                                tm.file if tm else None, (tm.pb or {}).get("line") if tm else None))
    return r
