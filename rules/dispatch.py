"""A8 / D1: message-type dispatch tables."""
import re
from .common import Finding
from .facts import walk, is_call, lit_val, callee
from . import grammar as G

MT_TY = re.compile(r"messages::mt(\d{3})::MT(\d{3})\b")
MT_NAME = re.compile(r"\b(?:into_|as_)?[mM][tT](\d{3})\b")


def type_ids(F):
    """{type path: message_type() literal}"""
    out = {}
    for T in G.message_types(F):
        b = F.fn(T, "message_type", "SwiftMessageBody")
        lits = [n["v"] for n in walk(b["body"]) if n.get("k") == "lit" and n.get("t") == "str"] if b else []
        out[T] = lits[0] if len(lits) == 1 else None
    return out


def pat_keys(p):
    """(kind, values) of an arm pattern: ('lit', {'101','MT101'}) / ('var', {'MT101'}) / ('wild', set())"""
    k = p.get("k")
    if k == "plit" and p.get("t") == "str":
        return "lit", {p["v"]}
    if k == "por":
        kinds, vals = set(), set()
        for q in p["pats"]:
            kk, vv = pat_keys(q)
            kinds.add(kk)
            vals |= vv
        return (kinds.pop() if len(kinds) == 1 else "mixed"), vals
    if k in ("pts", "pstruct", "ppath") and "ParsedSwiftMessage::" in (p.get("path") or ""):
        return "var", {p["path"].rsplit("::", 1)[-1]}
    if k == "pref":
        return pat_keys(p["pat"])
    if k in ("_", "bind"):
        return "wild", set()
    return "other", set()


def arm_evidence(body):
    """type numbers an arm body mentions, by source"""
    ev = {}

    def add(src, num, ln):
        ev.setdefault(num, []).append((src, ln))

    for n in walk(body):
        k = n.get("k")
        ln = n.get("ln")
        if k in ("call", "mcall"):
            for g in n.get("ga") or []:
                for m in MT_TY.finditer(g):
                    add("generic-arg", m.group(2), ln)
            f = n.get("f") or ""
            m = re.search(r"ParsedSwiftMessage::(?:into_|as_)mt(\d{3})$", f)
            if m:
                add("callee " + f.rsplit("::", 1)[-1], m.group(1), ln)
            m = re.search(r"ParsedSwiftMessage::MT(\d{3})$", f)
            if m and n.get("ctor"):
                add("variant-ctor", m.group(1), ln)
            if k == "mcall":
                for m in MT_TY.finditer(n.get("rt") or ""):
                    add("receiver-type", m.group(2), ln)
            # result type of from_value etc.
            if f.endswith("from_value") or f.endswith("to_value"):
                for m in MT_TY.finditer(n.get("t") or ""):
                    add("result-type", m.group(2), ln)
        elif k == "let":
            for m in MT_TY.finditer(n.get("ty") or ""):
                add("let-type", m.group(2), ln)
        elif k == "lit" and n.get("t") == "str":
            v = n["v"]
            if re.fullmatch(r"\d{3}", v):
                add("literal", v, ln)
            elif re.fullmatch(r"MT\d{3}", v):
                add("literal", v[2:], ln)
        elif k == "fmt":
            for p in n["pieces"]:
                if isinstance(p, str):
                    for m in re.finditer(r"\bMT(\d{3})\b", p):
                        add("text", m.group(1), ln)
    return ev


class Table:
    def __init__(self, fn, node, kind):
        self.fn = fn
        self.node = node
        self.kind = kind
        self.arms = []      # (keys:set, kind, evidence, arm)
        self.wild = None


def find_tables(F, min_arms=20):
    tabs = []
    for b in F.bodies:
        if "body" not in b:
            continue
        if b.get("exp") and not (b.get("impl_self") or "").endswith("ParsedSwiftMessage"):
            continue
        for n in walk(b["body"]):
            if n.get("k") != "match" or len(n.get("arms") or []) < min_arms:
                continue
            kinds = [pat_keys(a["pat"])[0] for a in n["arms"]]
            nlit = sum(1 for k in kinds if k == "lit")
            nvar = sum(1 for k in kinds if k == "var")
            if max(nlit, nvar) < min_arms:
                continue
            t = Table(b, n, "lit" if nlit >= nvar else "var")
            for a in n["arms"]:
                kk, vals = pat_keys(a["pat"])
                if kk == "wild" and a.get("guard") is not None:
                    t.guarded = getattr(t, "guarded", []) + [a]
                elif kk == "wild":
                    t.wild = a
                else:
                    t.arms.append((vals, kk, arm_evidence(a["body"]), a))
            tabs.append(t)
    return tabs


def d1(rep, F):
    r = rep.rule("D1", "every message-type dispatch table is a bijection between the 30 supported types and "
                       "its arms, and everything an arm mentions (key literal, enum variant, generic "
                       "arguments, callee, receiver type, returned literal) names the same type; the key equals "
                       "that type's message_type(); wildcard arms report an unsupported type", floor=150)
    ids = type_ids(F)
    num_of = {}
    for T, lit in ids.items():
        r["instances"] += 1
        m = MT_TY.search(T)
        if lit is None or not m or m.group(1) != m.group(2):
            rep.add(Finding("D1", T, "message_type", "cannot read a single message_type() literal for %s" % T))
            continue
        if lit != m.group(2):
            b = F.fn(T, "message_type", "SwiftMessageBody")
            rep.add(Finding("D1", b["path"], "message_type:%s" % lit,
                            "%s::message_type() returns \"%s\" but the type is named MT%s (the JSON / publish "
                            "and wrapper tables key it as %s)" % (G.short(T), lit, m.group(2), m.group(2)),
                            b["file"], b["line"]))
        num_of[T] = lit
    supported = set(ids.values()) - {None}
    if len(ids) < 30:
        rep.fail_closed("D1: fewer than 30 impl SwiftMessageBody (%d)" % len(ids))
    # MessageParser::new(_, "nnn") literal in each parse_from_block4
    for T in ids:
        pb = F.fn(T, "parse_from_block4", "SwiftMessageBody")
        if pb is None:
            continue
        bodies = [pb]
        ih = F.fn(T, "parse_from_block4", None)
        if ih:
            bodies.append(ih)
        lits = []
        for bb in bodies:
            for n in walk(bb["body"]):
                if is_call(n, "MessageParser::<'a>::new"):
                    a = n.get("args") or []
                    if len(a) > 1:
                        lits.append((lit_val(a[1]), n.get("ln"), bb))
        r["instances"] += 1
        if not lits:
            rep.add(Finding("D1", pb["path"], "parser-new", "no MessageParser::new(.., <type literal>) found",
                            pb["file"], pb["line"]))
        for v, ln, bb in lits:
            if v != ids[T]:
                rep.add(Finding("D1", bb["path"], "parser-new:%s" % v,
                                "MessageParser::new(_, \"%s\") in %s: errors of this parser name message type %s "
                                "instead of %s" % (v, G.short(T), v, ids[T]), bb["file"], ln))
    tabs = find_tables(F)
    r["tables"] = []
    for t in tabs:
        fn = t.fn
        seen = {}
        r["analysed"] += 1
        r["tables"].append({"fn": fn["path"], "line": t.node.get("ln"), "arms": len(t.arms), "kind": t.kind})
        for vals, kk, ev, arm in t.arms:
            r["instances"] += 1
            nums = set()
            for v in vals:
                m = re.fullmatch(r"(?:MT)?(\d{3})", v)
                if m:
                    nums.add(m.group(1))
            if len(nums) != 1:
                rep.add(Finding("D1", fn["path"], "arm:%s" % "|".join(sorted(vals)),
                                "arm keys %s do not name one message type" % sorted(vals), fn["file"],
                                t.node.get("ln")))
                continue
            num = nums.pop()
            if num in seen:
                rep.add(Finding("D1", fn["path"], "arm:%s:duplicate" % num, "type %s has two arms" % num,
                                fn["file"], t.node.get("ln")))
            seen[num] = True
            if num not in supported:
                rep.add(Finding("D1", fn["path"], "arm:%s:unknown" % num,
                                "arm for %s, which no impl SwiftMessageBody announces" % num, fn["file"],
                                t.node.get("ln")))
            for other, srcs in ev.items():
                if other != num:
                    src, ln = srcs[0]
                    rep.add(Finding("D1", fn["path"], "arm:%s:%s:%s" % (num, src.split(" ")[0], other),
                                    "dispatch arm for type %s uses %s of type %s (%s): a message announced as %s "
                                    "is handled as %s" % (num, src, other, fn["name"], num, other),
                                    fn["file"], ln))
        missing = supported - set(seen)
        for m in sorted(missing):
            rep.add(Finding("D1", fn["path"], "missing:%s" % m,
                            "dispatch table in %s has no arm for supported type %s" % (fn["name"], m),
                            fn["file"], t.node.get("ln")))
        for ga in getattr(t, "guarded", []):
            rep.add(Finding("D1", fn["path"], "guarded-catch-all",
                            "the dispatch in %s has a catch-all arm with a guard (line %s): keys outside the table "
                            "of supported types are dispatched by a computed condition, the other tables do not "
                            "know them" % (fn["name"], ga.get("ln") or (ga.get("body") or {}).get("ln")),
                            fn["file"], t.node.get("ln")))
        if t.kind == "lit":
            r["instances"] += 1
            if t.wild is None:
                rep.add(Finding("D1", fn["path"], "wildcard", "string-keyed dispatch without wildcard arm",
                                fn["file"], t.node.get("ln")))
            else:
                ok = False
                for n in walk(t.wild["body"]):
                    if n.get("k") == "struct" and "UnsupportedMessageType" in (n.get("path") or ""):
                        ok = True
                    if n.get("k") == "call" and n.get("ctor") and (n.get("f") or "").endswith(("::Validation", "::Err")) \
                            and not arm_evidence(t.wild["body"]):
                        ok = True
                if arm_evidence(t.wild["body"]):
                    ok = False
                if not ok:
                    rep.add(Finding("D1", fn["path"], "wildcard:not-error",
                                    "the wildcard arm of the dispatch in %s does not report an unsupported "
                                    "type (or handles it as some supported type)" % fn["name"], fn["file"],
                                    t.node.get("ln")))
    if len(tabs) < 5:
        rep.fail_closed("D1: only %d dispatch tables found (expected >= 5: auto parser, wrapper enum x2, "
                        "plugin parse, publish, validate)" % len(tabs))
    return r, tabs, ids


def wrapper_enum(rep, F, ids):
    """ParsedSwiftMessage: variant name <-> payload type <-> serde tag"""
    r = rep.rule("D1w", "ParsedSwiftMessage: variant MTnnn carries SwiftMessage<MTnnn>; its serde tag literal "
                        "is nnn; as_/into_ accessors return the variant they are named after", floor=60)
    adt = F.adts.get("parsed_message::ParsedSwiftMessage")
    if adt is None:
        rep.fail_closed("D1w: ParsedSwiftMessage not found")
        return r
    for v in adt["variants"]:
        r["instances"] += 1
        m = re.fullmatch(r"MT(\d{3})", v["name"])
        pt = v["fields"][0]["ty"] if v["fields"] else ""
        pm = MT_TY.search(pt)
        if not m or not pm or pm.group(2) != m.group(1):
            rep.add(Finding("D1w", adt["path"], "variant:%s" % v["name"],
                            "variant %s carries %s" % (v["name"], pt), adt["file"], adt["line"]))
    # accessors
    for b in F.bodies:
        if b.get("impl_self") != "parsed_message::ParsedSwiftMessage" or b.get("impl_trait") or "body" not in b:
            continue
        m = re.fullmatch(r"(?:as|into)_mt(\d{3})", b["name"])
        if not m:
            continue
        r["instances"] += 1
        vars_ = set()
        for n in walk(b["body"]):
            if n.get("k") == "match":
                for a in n["arms"]:
                    kk, vals = pat_keys(a["pat"])
                    if kk == "var":
                        vars_ |= vals
        if vars_ != {"MT" + m.group(1)}:
            rep.add(Finding("D1w", b["path"], "accessor:%s" % b["name"],
                            "%s matches variant(s) %s" % (b["name"], sorted(vars_)), b["file"], b["line"]))
        out = MT_TY.search(b.get("output") or "")
        if not out or out.group(2) != m.group(1):
            rep.add(Finding("D1w", b["path"], "accessor-type:%s" % b["name"],
                            "%s returns %s" % (b["name"], b.get("output")), b["file"], b["line"]))
    # serde tag literals from the derived Serialize body
    for b in F.bodies:
        if (b.get("impl_self") or "") == "parsed_message::ParsedSwiftMessage" and \
                (b.get("impl_trait") or "").endswith("Serialize") and b["name"] == "serialize" and "body" in b:
            for n in walk(b["body"]):
                if n.get("k") != "match":
                    continue
                for a in n["arms"]:
                    kk, vals = pat_keys(a["pat"])
                    if kk != "var":
                        continue
                    r["instances"] += 1
                    lits = [x["v"] for x in walk(a["body"]) if x.get("k") == "lit" and x.get("t") == "str"]
                    vn = sorted(vals)[0]
                    want = vn[2:]
                    tag_lits = [l for l in lits if re.fullmatch(r"(?:MT)?\d{3}", l)]
                    if want not in tag_lits or any(re.fullmatch(r"\d{3}", l) and l != want for l in tag_lits):
                        rep.add(Finding("D1w", b["path"], "serde-tag:%s" % vn,
                                        "variant %s serialises with tag literal(s) %s" % (vn, tag_lits),
                                        b["file"], b["line"]))
    return r


def _mismatch_if(st, tail_ok=False):
    """`if <announced type> != T::message_type() { leave with an error }`"""
    cond = st["cond"]
    has_mt = any(is_call(x, "SwiftMessageBody::message_type") for x in walk(cond))
    ne = cond.get("k") == "bin" and cond.get("op") == "!="
    leaves = any(x.get("k") == "ret" for x in walk(st["then"])) or \
        (tail_ok and any(x.get("k") == "call" and (x.get("f") or "").endswith("::Err") for x in walk(st["then"])))
    return has_mt and ne and leaves


def t03(rep, F):
    """typed parse compares the announced type with T::message_type() before parsing block 4"""
    r = rep.rule("D1t", "every generic call T::parse_from_block4 is preceded (dominated, in the statement "
                        "sequence) by `if <announced type> != T::message_type() { return Err(..) }`", floor=1)
    for b in F.bodies:
        if "body" not in b or b.get("exp"):
            continue
        body = b["body"]
        if body.get("k") != "block":
            continue
        pcalls = []
        for n in walk(body):
            if is_call(n, "SwiftMessageBody::parse_from_block4") and not n.get("inst"):
                pcalls.append(n)
        if not pcalls:
            continue
        # only functions that parse a whole message (they read the announced type from block 2);
        # the legacy sequence helpers parse sub-sequences of a field map and announce nothing
        if not any(is_call(x, "ApplicationHeader::parse") for x in walk(body)):
            continue
        r["analysed"] += 1
        for pc in pcalls:
            r["instances"] += 1
            ok = False
            for st in body.get("stmts") or []:
                if any(x is pc for x in walk(st)):
                    break
                if st.get("k") == "if" and _mismatch_if(st):
                    ok = True
                # the same test kept in a helper: a crate function called with `?` whose own first-level statements
                # contain it (`ensure_message_type::<T>(&announced)?`)
                for x in walk(st):
                    if x.get("k") == "try" and isinstance(x.get("e"), dict) and x["e"].get("k") in ("call", "mcall"):
                        hb = F.body_by_path.get(callee(x["e"]))
                        if hb is not None and "body" in hb and not hb.get("exp") and \
                                (hb.get("output") or "").startswith("std::result::Result<") and \
                                isinstance(hb["body"], dict) and hb["body"].get("k") == "block":
                            hst = list(hb["body"].get("stmts") or [])
                            if hb["body"].get("expr") is not None:
                                hst.append(hb["body"]["expr"])
                            if any(h.get("k") == "if" and _mismatch_if(h, tail_ok=True) for h in hst):
                                ok = True
            if not ok:
                rep.add(Finding("D1t", b["path"], "typed-parse",
                                "%s parses block 4 as T without first rejecting a message whose announced type "
                                "differs from T::message_type()" % b["name"], b["file"], pc.get("ln")))
    return r


# ---------------------------------------------------------------------------
# D2: a failed parse is reported by every consumer of the whole-message parsers

PARSE_ENTRY = ("SwiftParser::parse_auto", "SwiftParser::parse", "SwiftParser::parse_with_errors",
               "SwiftParser::parse_auto_with_errors")


def _must_record(n, vecs):
    """True when every path through n pushes/extends one of the collections in `vecs`, or leaves the
    function with an error (return Err / `?` is handled by the caller)."""
    if isinstance(n, list):
        return any(_must_record(x, vecs) for x in n)
    if not isinstance(n, dict):
        return False
    k = n.get("k")
    if k == "block":
        return any(_must_record(s, vecs) for s in (n.get("stmts") or [])) or _must_record(n.get("expr"), vecs)
    if k in ("let", "letx", "semi", "stmt"):
        return _must_record(n.get("init") or n.get("e") or n.get("expr"), vecs)
    if k == "if":
        if n.get("else") is None and n.get("els") is None:
            return _must_record(n.get("cond"), vecs)
        return _must_record(n.get("cond"), vecs) or (
            _must_record(n.get("then"), vecs) and _must_record(n.get("else") or n.get("els"), vecs))
    if k == "match":
        if _must_record(n.get("e"), vecs):
            return True
        arms = n.get("arms") or []
        return bool(arms) and all(_must_record(a.get("body"), vecs) for a in arms)
    if k in ("for", "while", "loop", "closure"):
        return False
    if k == "ret":
        e = n.get("e")
        return isinstance(e, dict) and is_call(e, "Err")
    if k == "mcall" and n.get("m") in ("push", "extend", "push_str", "insert", "append"):
        from .facts import place_str
        if place_str(n.get("recv")) in vecs:
            return True
    if k in ("call", "mcall"):
        return _must_record(n.get("recv"), vecs) or any(_must_record(a, vecs) for a in n.get("args") or [])
    if k in ("ref", "un", "cast", "try", "paren"):
        return _must_record(n.get("e"), vecs)
    return False


def d2(rep, F):
    r = rep.rule("D2", "every match on the result of a whole-message parse (parse_auto / parse::<T>) handles "
                       "Err so that every path records an error in the function's error collection or returns "
                       "Err: an unsupported or malformed message is never reported as valid", floor=1)
    from .facts import place_str
    for b in F.bodies:
        if "body" not in b or b.get("exp") or "/tests" in (b.get("file") or ""):
            continue
        sites = [n for n in walk(b["body"]) if n.get("k") == "match"
                 and any(is_call(x, *PARSE_ENTRY) for x in walk(n.get("e") or {}))]
        if not sites:
            continue
        r["analysed"] += 1
        vecs = set()
        for n in walk(b["body"]):
            if n.get("k") == "mcall" and n.get("m") in ("push", "extend"):
                p = place_str(n.get("recv"))
                if p and "." not in p:
                    vecs.add(p)
        for m in sites:
            for a in m["arms"]:
                p = a.get("pat") or {}
                if not (p.get("path") or "").endswith("Err"):
                    continue
                r["instances"] += 1
                body = a.get("body")
                inner = [x for x in walk(body) if x.get("k") == "match"]
                bad = []
                if not _must_record(body, vecs):
                    # name the arm of the inner match that records nothing
                    for im in inner:
                        for ia in im.get("arms") or []:
                            if not _must_record(ia.get("body"), vecs):
                                ip = ia.get("pat") or {}
                                bad.append((ip.get("path") or ip.get("k") or "?").rsplit("::", 1)[-1])
                    rep.add(Finding("D2", b["path"], "err-arm:%s" % ",".join(sorted(set(bad)) or ["*"]),
                                    "a parse failure can leave %s without any recorded error (arms recording "
                                    "nothing: %s): the message would be reported as valid"
                                    % (b["path"], sorted(set(bad)) or "the Err arm itself"),
                                    b["file"], a.get("ln") or m.get("ln")))
    return r
