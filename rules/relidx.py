"""P4r: relational bounds of non-constant vector indices.

`V[I]` with a non-constant I is judged safe when the structure of the function shows I < V.len():
  R1  an enclosing `if` (then-branch) has the conjunct `I < V.len()` / `V.len() > I` (or with I + c for an index
      I + c' , c' <= c), and nothing in the branch before the site assigns a local of I;
  R2  a dominating earlier statement `if I >= V.len() { leave }` / `if V.len() <= I { leave }`, with no
      assignment to a local of I between it and the site;
  R3  the site is in `for x in a..V.len()` and I is x, or x - c with the constant a >= c;
  R4  I is V.len() - c and a dominating guard proves V.len() >= c (`V.len() < c' -> leave` with c' >= c,
      `V.is_empty() -> leave` for c = 1, or an enclosing `if !V.is_empty()` / `V.len() >= c'`).
Everything else stays a finding: the index may exceed the length. Vec lengths do not change behind `V` when no
push / pop / clear / truncate / remove on V lies between guard and site (checked)."""
from .facts import walk
from .panics import expr_text

SHRINK = ("pop", "clear", "truncate", "remove", "swap_remove", "drain", "retain", "split_off", "dedup")


def _parents(body):
    par = {}

    def go(n, p):
        if isinstance(n, dict):
            if "k" in n:
                par[id(n)] = p
                p = n
            for k, v in n.items():
                if k in ("pat", "pats", "params"):
                    continue
                if isinstance(v, (dict, list)):
                    go(v, p)
        elif isinstance(n, list):
            for x in n:
                go(x, p)
    go(body, None)
    return par


def _strip(n):
    while isinstance(n, dict) and (n.get("k") in ("ref", "cast", "paren") or
                                    (n.get("k") == "un" and n.get("op") == "*") or
                                    (n.get("k") == "block" and not n.get("stmts") and n.get("expr") is not None)):
        n = n.get("e") if n.get("k") != "block" else n["expr"]
    return n


def _const(n):
    n = _strip(n)
    if isinstance(n, dict) and n.get("k") == "lit" and isinstance(n.get("v"), int) and n.get("t") != "str":
        return n["v"]
    if isinstance(n, dict) and n.get("k") == "lit":
        try:
            return int(n.get("v"))
        except (TypeError, ValueError):
            return None
    return None


def _split_plus(n):
    """(core text, constant offset) of `core + c` / `core - c` / `core`"""
    n = _strip(n)
    if isinstance(n, dict) and n.get("k") == "bin" and n.get("op") in ("+", "-"):
        c = _const(n["r"])
        if c is not None:
            t, o = _split_plus(n["l"])
            return t, o + (c if n["op"] == "+" else -c)
        c = _const(n["l"])
        if c is not None and n["op"] == "+":
            t, o = _split_plus(n["r"])
            return t, o + c
    return expr_text(n), 0


def _is_len_of(n, vtext):
    n = _strip(n)
    return isinstance(n, dict) and n.get("k") == "mcall" and n.get("m") == "len" and not n.get("args") \
        and expr_text(_strip(n.get("recv"))) == vtext


def _conjuncts(c):
    c = _strip(c)
    if isinstance(c, dict) and c.get("k") == "bin" and c.get("op") == "&&":
        return _conjuncts(c["l"]) + _conjuncts(c["r"])
    return [c]


def _disjuncts(c):
    c = _strip(c)
    if isinstance(c, dict) and c.get("k") == "bin" and c.get("op") == "||":
        return _disjuncts(c["l"]) + _disjuncts(c["r"])
    return [c]


def _implies_lt(cond, itext, ioff, vtext):
    """cond (assumed true) has a conjunct proving  itext + ioff < vtext.len()"""
    for c in _conjuncts(cond):
        if not (isinstance(c, dict) and c.get("k") == "bin"):
            continue
        op, l, r = c.get("op"), c.get("l"), c.get("r")
        if op == ">" or op == ">=":
            op = {">": "<", ">=": "<="}[op]
            l, r = r, l
        if op not in ("<", "<="):
            continue
        if not _is_len_of(r, vtext):
            continue
        t, o = _split_plus(l)
        if t != itext:
            continue
        # t + o < len (or <= len): proves t + ioff < len when ioff <= o (resp. ioff < o)
        if (op == "<" and ioff <= o) or (op == "<=" and ioff < o):
            return True
    return False


def _implies_ge_len(cond, itext, ioff, vtext):
    """cond true means  itext + ioff >= vtext.len()  for some disjunct covering it (used as `if cond { leave }`)"""
    for c in _disjuncts(cond):
        if not (isinstance(c, dict) and c.get("k") == "bin"):
            continue
        op, l, r = c.get("op"), c.get("l"), c.get("r")
        if op in ("<", "<="):
            op = {"<": ">", "<=": ">="}[op]
            l, r = r, l
        if op not in (">", ">="):
            continue
        if not _is_len_of(r, vtext):
            continue
        t, o = _split_plus(l)
        if t != itext:
            continue
        # leaving when t + o >= len  leaves  t + o < len afterwards: proves t + ioff < len when ioff <= o
        if (op == ">=" and ioff <= o) or (op == ">" and ioff < o):
            return True
    return False


def _minlen_guard(cond_true, vtext):
    """lower bound of vtext.len() implied by cond being true"""
    best = 0
    for c in _conjuncts(cond_true):
        c0 = _strip(c)
        if isinstance(c0, dict) and c0.get("k") == "un" and c0.get("op") == "!":
            x = _strip(c0["e"])
            if isinstance(x, dict) and x.get("k") == "mcall" and x.get("m") == "is_empty" \
                    and expr_text(_strip(x.get("recv"))) == vtext:
                best = max(best, 1)
        if isinstance(c0, dict) and c0.get("k") == "bin":
            op, l, r = c0["op"], c0["l"], c0["r"]
            if _is_len_of(r, vtext) and _const(l) is not None:
                l, r = r, l
                op = {"<": ">", ">": "<", "<=": ">=", ">=": "<=", "==": "==", "!=": "!="}[op]
            if _is_len_of(l, vtext) and _const(r) is not None:
                k = _const(r)
                if op == ">=":
                    best = max(best, k)
                elif op == ">":
                    best = max(best, k + 1)
                elif op == "==":
                    best = max(best, k)
    return best


def _minlen_leave(cond, vtext):
    """`if cond { leave }`: lower bound of len afterwards (every disjunct must be known? no: the negation of the
    whole cond holds, hence the negation of each disjunct)"""
    best = 0
    for c in _disjuncts(cond):
        c0 = _strip(c)
        if isinstance(c0, dict) and c0.get("k") == "mcall" and c0.get("m") == "is_empty" \
                and expr_text(_strip(c0.get("recv"))) == vtext:
            best = max(best, 1)
        if isinstance(c0, dict) and c0.get("k") == "bin":
            op, l, r = c0["op"], c0["l"], c0["r"]
            if _is_len_of(r, vtext) and _const(l) is not None:
                l, r = r, l
                op = {"<": ">", ">": "<", "<=": ">=", ">=": "<=", "==": "==", "!=": "!="}[op]
            if _is_len_of(l, vtext) and _const(r) is not None:
                k = _const(r)
                if op == "<":
                    best = max(best, k)
                elif op == "<=":
                    best = max(best, k + 1)
                elif op == "==" and k == 0:
                    best = max(best, 1)
    return best


def _leaves(n):
    """block always leaves (return / break / continue / `Err(..)?`) at its end"""
    n = _strip(n)
    if not isinstance(n, dict):
        return False
    k = n.get("k")
    if k in ("ret", "break", "continue"):
        return True
    if k == "block":
        st = list(n.get("stmts") or [])
        if n.get("expr") is not None:
            st.append(n["expr"])
        return bool(st) and _leaves(st[-1])
    if k in ("semi", "stmt"):
        return _leaves(n.get("e") or n.get("expr"))
    if k == "if":
        return n.get("else") is not None and _leaves(n["then"]) and _leaves(n["else"])
    if k == "call" and (n.get("f") or "").endswith(("panic", "panic_fmt", "unreachable")):
        return True
    return False


def _locals_of(n):
    return {x["id"] for x in walk(n) if x.get("k") == "local"}


def _mutates(n, ids, vtext):
    """n (a subtree executed between guard and site) assigns one of the index locals or shrinks V"""
    for x in walk(n):
        k = x.get("k")
        if k in ("assign", "assignop"):
            l = _strip(x.get("l"))
            while isinstance(l, dict) and l.get("k") in ("field", "index"):
                l = _strip(l.get("e"))
            if isinstance(l, dict) and l.get("k") == "local" and l["id"] in ids:
                return True
            if expr_text(_strip(x.get("l"))) == vtext:
                return True
        if k == "mcall" and x.get("m") in SHRINK and expr_text(_strip(x.get("recv"))) == vtext:
            return True
    return False


class Judge:
    def __init__(self, body):
        self.body = body
        self.par = _parents(body["body"])

    def judge(self, site):
        V = _strip(site.get("e"))
        I = _strip(site.get("i"))
        vtext = expr_text(V)
        itext, ioff = _split_plus(I)
        ids = _locals_of(I)
        # R4 precheck: index is len - c
        len_minus = None
        if isinstance(I, dict) and I.get("k") == "bin" and I.get("op") == "-" and _is_len_of(I["l"], vtext) \
                and _const(I["r"]) is not None:
            len_minus = _const(I["r"])
        # climb
        site = site.get("at") or site
        child = site
        p = self.par.get(id(site))
        while p is not None:
            k = p.get("k")
            if k == "if":
                in_then = self._inside(p.get("then"), child)
                in_else = p.get("else") is not None and self._inside(p.get("else"), child)
                if in_then:
                    before = self._before_in(p["then"], site)
                    if _implies_lt(p["cond"], itext, ioff, vtext) and not _mutates(before, ids, vtext):
                        return "safe", "R1 guard `%s`" % expr_text(_strip(p["cond"]))[:60]
                    if len_minus is not None and len_minus >= 1 and _minlen_guard(p["cond"], vtext) >= len_minus \
                            and not _mutates(before, set(), vtext):
                        return "safe", "R4 enclosing guard gives len >= %d" % len_minus
                if in_else:
                    # else of `if I >= len` is the same as then of I < len
                    if _implies_ge_len(p["cond"], itext, ioff, vtext) and len(_disjuncts(p["cond"])) == 1:
                        return "safe", "R1 else of `%s`" % expr_text(_strip(p["cond"]))[:60]
            if k == "bin" and p.get("op") == "&&" and self._inside(p.get("r"), child) and \
                    _implies_lt(p["l"], itext, ioff, vtext):
                return "safe", "R1 left operand `%s` of &&" % expr_text(_strip(p["l"]))[:60]
            if k == "bin" and p.get("op") == "||" and self._inside(p.get("r"), child) and \
                    _implies_ge_len(p["l"], itext, ioff, vtext) and len(_disjuncts(p["l"])) == 1:
                return "safe", "R1 left operand `%s` of ||" % expr_text(_strip(p["l"]))[:60]
            if k == "while" and self._inside(p.get("body"), child):
                # while I < V.len() { .. V[I] .. }: the guard holds at the top of each iteration
                before = self._before_in(p["body"], site)
                if _implies_lt(p.get("cond"), itext, ioff, vtext) and not _mutates(before, ids, vtext):
                    return "safe", "R1 loop guard `%s`" % expr_text(_strip(p["cond"]))[:60]
            if k == "for":
                it = _strip(p.get("iter"))
                pat = p.get("pat") or {}
                if isinstance(it, dict) and it.get("k") == "struct" and (it.get("path") or "").endswith("Range") \
                        and pat.get("k") == "bind" and self._inside(p.get("body"), child):
                    fs = {f["name"]: f["e"] for f in it.get("fields") or []}
                    if _is_len_of(fs.get("end"), vtext) and itext == pat.get("name") \
                            and len(ids) == 1 and pat.get("id") in ids:
                        a = _const(fs.get("start"))
                        if ioff == 0 or (ioff < 0 and a is not None and a >= -ioff):
                            if not _mutates(self._before_in(p["body"], site), ids, vtext):
                                return "safe", "R3 for %s in %s..%s.len()" % (pat.get("name"), a, vtext)
            if k == "block":
                # dominating earlier statements of this block
                stmts = list(p.get("stmts") or [])
                if p.get("expr") is not None:
                    stmts.append(p["expr"])
                idx = None
                for j, s in enumerate(stmts):
                    if s is child or self._inside(s, child) or s is site:
                        idx = j
                        break
                if idx is not None:
                    for j in range(idx - 1, -1, -1):
                        s = _strip(stmts[j])
                        if isinstance(s, dict) and s.get("k") in ("semi", "stmt"):
                            s = _strip(s.get("e") or s.get("expr"))
                        if isinstance(s, dict) and s.get("k") == "if" and s.get("else") is None and _leaves(s["then"]):
                            between = stmts[j + 1:idx] + [self._before_in(stmts[idx], site)]
                            if _implies_ge_len(s["cond"], itext, ioff, vtext) and not _mutates(between, ids, vtext):
                                return "safe", "R2 earlier `if %s { leave }`" % expr_text(_strip(s["cond"]))[:60]
                            if len_minus is not None and len_minus >= 1 and \
                                    _minlen_leave(s["cond"], vtext) >= len_minus and \
                                    not _mutates(between, set(), vtext):
                                return "safe", "R4 earlier guard gives len >= %d" % len_minus
            if k == "closure":
                break
            child = p
            p = self.par.get(id(p))
        return "finding", "no guard relating %s to %s.len() dominates the site" % (expr_text(I), vtext)

    def _inside(self, root, node):
        if root is None:
            return False
        if root is node:
            return True
        return any(x is node for x in walk(root))

    def _before_in(self, root, site):
        """the nodes of root that are evaluated before `site` in source order (approximation: the statements of
        every block on the way that precede the one holding the site, plus nothing of the site's own statement)"""
        out = []
        cur = root
        while isinstance(cur, dict):
            if cur is site:
                break
            k = cur.get("k")
            if k == "block":
                stmts = list(cur.get("stmts") or [])
                if cur.get("expr") is not None:
                    stmts.append(cur["expr"])
                nxt = None
                for s in stmts:
                    if s is site or self._inside(s, site):
                        nxt = s
                        break
                    out.append(s)
                cur = nxt
                continue
            # descend into the child that holds the site
            nxt = None
            for key, v in cur.items():
                if key in ("pat", "pats", "params"):
                    continue
                cands = [v] if isinstance(v, dict) else (v if isinstance(v, list) else [])
                for c in cands:
                    if isinstance(c, dict) and (c is site or self._inside(c, site)):
                        nxt = c
                        break
                    if isinstance(c, dict) and "body" in c and isinstance(c.get("body"), dict) and \
                            self._inside(c["body"], site):
                        nxt = c["body"]
                        break
                if nxt is not None:
                    break
            cur = nxt
        return out


# ---------------------------------------------------------------------------
# P2b: end bound `t + c` of a string slice against the length (relational, constant offset)

def _implies_le(cond, t, o, v):
    """cond true  =>  t + o <= v.len()"""
    for c in _conjuncts(cond):
        if not (isinstance(c, dict) and c.get("k") == "bin"):
            continue
        op, l, r = c["op"], c["l"], c["r"]
        if op in (">", ">="):
            op = {">": "<", ">=": "<="}[op]
            l, r = r, l
        if op not in ("<", "<=") or not _is_len_of(r, v):
            continue
        tt, oo = _split_plus(l)
        if tt != t:
            continue
        if (op == "<=" and o <= oo) or (op == "<" and o <= oo + 1):
            return True
    return False


def _leave_gt(cond, t, o, v):
    """`if cond { leave }`: afterwards t + o <= v.len()"""
    for c in _disjuncts(cond):
        if not (isinstance(c, dict) and c.get("k") == "bin"):
            continue
        op, l, r = c["op"], c["l"], c["r"]
        if op in ("<", "<="):
            op = {"<": ">", "<=": ">="}[op]
            l, r = r, l
        if op not in (">", ">=") or not _is_len_of(r, v):
            continue
        tt, oo = _split_plus(l)
        if tt != t:
            continue
        if (op == ">" and o <= oo) or (op == ">=" and o <= oo + 1):
            return True
    return False


def judge_str_end(judge, site):
    """verdict for the end bound of a string slice `V[a .. t + c]` (t a local, c a positive constant):
    'safe' / 'finding' / None (not of that form)"""
    i = site.get("i")
    if not (isinstance(i, dict) and i.get("k") == "struct"):
        return None
    fs = {f["name"]: f["e"] for f in i.get("fields") or []}
    if "end" not in fs:
        return None
    e = _strip(fs["end"])
    if _const(e) is not None:
        return None
    t, o = _split_plus(e)
    core = _strip(e)
    while isinstance(core, dict) and core.get("k") == "bin" and core.get("op") in ("+", "-"):
        core = _strip(core["l"]) if _const(core["r"]) is not None else (_strip(core["r"]) if _const(core["l"]) is not None else None)
    if not (isinstance(core, dict) and core.get("k") == "local") or o < 1:
        return None
    # a bound that comes out of a search on the text (find / char_indices / len arithmetic) is in range by
    # construction; the interpreter's position facts judge those
    for n_ in walk(judge.body["body"]):
        if n_.get("k") in ("let", "letx") and n_.get("init") is not None:
            if any(q_.get("k") == "bind" and q_.get("id") == core.get("id") for q_ in _pat_binds(n_.get("pat"))):
                if any(x_.get("k") == "mcall" and x_.get("m") in ("find", "rfind", "char_indices", "len", "position",
                                                                   "rposition", "min")
                       for x_ in walk(n_["init"])):
                    return None
        if n_.get("k") == "for" and any(q_.get("id") == core.get("id") for q_ in _pat_binds(n_.get("pat"))):
            return None
    vt = expr_text(_strip(site.get("e")))
    ids = _locals_of(e)
    site = site.get("at") or site      # a site written as get(range).unwrap() / split_at(k): the call is the place
    child = site
    p = judge.par.get(id(site))
    while p is not None:
        k = p.get("k")
        if k == "if" and judge._inside(p.get("then"), child) and _implies_le(p["cond"], t, o, vt) \
                and not _mutates(judge._before_in(p["then"], site), ids, vt):
            return "safe"
        if k == "bin" and p.get("op") == "&&" and judge._inside(p.get("r"), child) and _implies_le(p["l"], t, o, vt):
            return "safe"
        if k == "bin" and p.get("op") == "||" and judge._inside(p.get("r"), child) and \
                _leave_gt(p["l"], t, o, vt) and len(_disjuncts(p["l"])) == 1:
            return "safe"
        if k == "while" and judge._inside(p.get("body"), child) and _implies_le(p.get("cond"), t, o, vt) \
                and not _mutates(judge._before_in(p["body"], site), ids, vt):
            return "safe"
        if k == "block":
            st = list(p.get("stmts") or []) + ([p["expr"]] if p.get("expr") is not None else [])
            idx = None
            for q, x in enumerate(st):
                if x is child or judge._inside(x, child):
                    idx = q
                    break
            if idx is not None:
                for q in range(idx - 1, -1, -1):
                    x = _strip(st[q])
                    if isinstance(x, dict) and x.get("k") == "if" and x.get("else") is None and _leaves(x["then"]) \
                            and _leave_gt(x["cond"], t, o, vt):
                        if not _mutates(st[q + 1:idx] + [judge._before_in(st[idx], site)], ids, vt):
                            return "safe"
                        break
        if k == "closure":
            break
        child = p
        p = judge.par.get(id(p))
    return "finding"


def _pat_binds(p):
    if not isinstance(p, dict):
        return
    if p.get("k") == "bind":
        yield p
    for q in p.get("pats") or []:
        yield from _pat_binds(q)
    if p.get("pat"):
        yield from _pat_binds(p["pat"])
    for f in p.get("fields") or []:
        yield from _pat_binds(f.get("pat"))
