"""A6: crate-local call graph from MIR call terminators (closures folded into their root fn)."""


class CallGraph:
    def __init__(self, F):
        self.F = F
        self.edges = {}      # caller path -> list of (callee path, raw f, ga, line, exp)
        self.local = set(F.mir.keys())
        # trait method -> impl methods (for unresolved generic calls)
        self.impl_methods = {}
        for b in F.bodies:
            if b.get("impl_trait") and b["kind"] == "AssocFn":
                self.impl_methods.setdefault((b["impl_trait"], b["name"]), []).append(b["path"])
        for path, m in F.mir.items():
            root = m.get("root") or path
            lst = self.edges.setdefault(root, [])
            for bb in m["bbs"]:
                if bb.get("t") != "call" or "f" not in bb:
                    continue
                tgt = bb.get("inst") or bb["f"]
                lst.append((tgt, bb["f"], bb.get("ga"), bb.get("ln"), bool(bb.get("exp")), bb.get("inst") is not None))

    def callees(self, path, resolve_traits=True):
        out = []
        for tgt, raw, ga, ln, exp, resolved in self.edges.get(path, []):
            if tgt in self.local:
                out.append(tgt)
            elif resolve_traits and not resolved:
                # unresolved trait method of a crate trait: all impls
                parts = raw.rsplit("::", 1)
                if len(parts) == 2:
                    for p in self.impl_methods.get((parts[0], parts[1]), []):
                        out.append(p)
        return out

    def reachable(self, roots, resolve_traits=True):
        seen = set()
        todo = list(roots)
        while todo:
            p = todo.pop()
            if p in seen:
                continue
            seen.add(p)
            for c in self.callees(p, resolve_traits):
                if c not in seen:
                    todo.append(c)
        return seen

    def external_calls(self, path):
        return [(tgt, raw, ga, ln, exp) for tgt, raw, ga, ln, exp, _ in self.edges.get(path, [])
                if tgt not in self.local]
