"""C01 — nothing in an accepted message is silently discarded."""
from .common import Report
from . import accept
from . import grules

LEVEL = "other"
EXPLANATION = ("Static analysis of the resolved program (rustc HIR + type check): for all 30 "
               "parse_from_block4 functions and every parse call site, the structural necessary conditions of "
               "a drop-free parser are decided on every path: end-of-input check before Ok (G1), anchored "
               "extraction (G2), no discarded field error (G3), every parsed field is written back (G4), "
               "every option letter of the model is detectable (G7), sequence loops consume their marker (G8); field "
               "and header parsers do not cut their content (fixed slices without an upper length test U3, "
               "take(n) / capped loops without a rejection U4). "
               "Value equality up to canonical formatting is not decided.")
ASSUMPTIONS = ["rustc front end (name resolution, type check) is correct",
               "the may-flow extractor in rules/grammar.py over-approximates value flow from parse call "
               "sites to struct fields (unknown calls pass all argument sources through)"]


def run(F, tier):
    rep = Report("C01")
    tms, ft = grules.models(F)
    grules.g1(rep, tms)
    grules.g2(rep, F)
    grules.g3(rep, tms, F)
    grules.g4_g5_g6(rep, tms)
    # C01 keeps G4 only (G5/G6 belong to C02/C03/C09)
    rep.findings = [f for f in rep.findings if f.rule not in ("G5", "G6")]
    rep.rules.pop("G5", None)
    rep.rules.pop("G6", None)
    grules.g7(rep, tms, F)
    grules.g8(rep, tms)
    grules.g9(rep, tms)
    grules.g12(rep, tms)
    for tm in tms[:3]:
        if tm.g:
            rep.sample({"type": tm.name,
                        "parse_steps": ["%s %s<%s>" % (s.kind, s.tag, (s.ty or '').split('::')[-1]) for s in tm.g.sites][:12],
                        "appends": [".".join(a.path or ("?",)) for a in tm.w.appends][:12]})
    accept.u6(rep, F, "parser")
    accept.u7(rep, F, "parser")
    # the same question one level down: a field parser that reads only a prefix of its content (fixed slices, take(n),
    # a capped loop) and accepts the rest unseen drops part of an accepted message
    from . import fieldfmt
    fieldfmt.u3(rep, F, "fields")
    fieldfmt.u4(rep, F)
    return rep
