"""C05 — field parsers accept exactly their documented SWIFT format."""
from .common import Report
from . import accept
from . import fieldfmt, numdate
from .fieldtab import FieldTab

LEVEL = "other"
EXPLANATION = ("Necessary conditions of 'accept exactly the format', decided for every field parser at once: "
               "(U1) every character-class test reachable from a parser is ASCII-only (the SWIFT classes are "
               "ASCII); (U3) a parser that only reads fixed-offset slices rejects longer input (nothing after the "
               "last component is ignored); (U4) no parser truncates its input with take/truncate without "
               "rejecting the surplus; (T2) date/time components are calendar-validated. The full 'iff' over all "
               "strings per field is not decided.")
ASSUMPTIONS = ["MIR call graph closure from the 114 SwiftField::parse functions, header parsers and the public "
               "parser API covers the validators they use"]


def run(F, tier):
    rep = Report("C05")
    ft = FieldTab(F)
    fieldfmt.u1(rep, F)
    fieldfmt.u3(rep, F, "fields")
    fieldfmt.u4(rep, F)
    numdate.t2(rep, F, ft)
    # C05 keeps only the component-validation part of T2 (text-typed date components)
    rep.findings = [f for f in rep.findings if not (f.rule == "T2" and not f.instance.startswith("text-date"))]
    rep.sample({"U1": "char predicate call sites in the closure of parsers", "count": rep.rules["U1"]["instances"]})
    accept.u6(rep, F, "fields")
    accept.u7(rep, F, "fields")
    # code tables written as `match` (bank operation / payment method / transaction type codes)
    from . import v4
    v4.v3(rep, F, only=r"^fn:fields::field_utils::")
    return rep
