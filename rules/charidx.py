"""P7: a character count is not a byte offset.

`s.chars().enumerate()`, `s.chars().position(..)`, `s.chars().count()` count characters; `&s[a..b]`, `s.split_at(k)`,
`s.get(a..b)` take byte offsets. A local that carries a character count and reaches a bound of a text slice (directly,
through `+`/`-` arithmetic, or through the result of a crate function that returns such a count) makes the slice
panic, or cut at the wrong place, as soon as the text before the offset contains a multi-byte character."""
from .common import Finding
from .facts import walk, peel, callee, lit_val


def _is_str(t):
    t = (t or "").replace("&", "").replace("mut ", "").strip()
    return t in ("str", "std::string::String", "String", "alloc::string::String")


def _binds(p, path=()):
    if not isinstance(p, dict):
        return
    if p.get("k") == "bind":
        yield p, path
    for i, q in enumerate(p.get("pats") or []):
        yield from _binds(q, path + (i,))
    if p.get("pat"):
        yield from _binds(p["pat"], path)


def _chars_enumerate(e, lets, depth=0):
    """e evaluates to an iterator of (character index, char) pairs"""
    e = peel(e)
    if not isinstance(e, dict) or depth > 4:
        return False
    if e.get("k") == "local" and e.get("id") in lets:
        return _chars_enumerate(lets[e["id"]], lets, depth + 1)
    if e.get("k") == "mcall":
        m = e.get("m")
        if m == "enumerate":
            x = peel(e.get("recv"))
            # chars() possibly behind adapters that keep one item per char
            while isinstance(x, dict) and x.get("k") == "mcall" and x.get("m") in ("peekable", "by_ref", "skip", "take",
                                                                                    "rev", "into_iter", "iter"):
                if x.get("m") in ("skip", "rev"):
                    return False     # index no longer counted from the start
                x = peel(x.get("recv"))
            if isinstance(x, dict) and x.get("k") == "local" and x.get("id") in lets:
                x = peel(lets[x["id"]])
            return isinstance(x, dict) and x.get("k") == "mcall" and x.get("m") == "chars"
        if m in ("peekable", "by_ref", "into_iter"):
            return _chars_enumerate(e.get("recv"), lets, depth + 1)
    return False


def _chars_count(e):
    """e is s.chars().position(..) / s.chars().count()"""
    e = peel(e)
    while isinstance(e, dict) and e.get("k") == "mcall" and e.get("m") in ("unwrap", "expect", "unwrap_or",
                                                                          "unwrap_or_default"):
        e = peel(e.get("recv"))
    while isinstance(e, dict) and e.get("k") == "try":
        e = peel(e.get("e"))
    if isinstance(e, dict) and e.get("k") == "mcall" and e.get("m") in ("position", "rposition", "count"):
        x = peel(e.get("recv"))
        return isinstance(x, dict) and x.get("k") == "mcall" and x.get("m") == "chars"
    return False


def _analyse(F, b, count_fns):
    """(char-count local ids, does a returned value carry a char count)"""
    body = b["body"]
    lets = {}
    for n in walk(body):
        if n.get("k") == "let" and n.get("init") is not None and (n.get("pat") or {}).get("k") == "bind":
            lets[n["pat"]["id"]] = n["init"]
    tainted = set()

    def src_is_count_call(e):
        e = peel(e)
        while isinstance(e, dict) and e.get("k") in ("try",):
            e = peel(e.get("e"))
        while isinstance(e, dict) and e.get("k") == "mcall" and e.get("m") in ("unwrap", "expect", "unwrap_or",
                                                                              "unwrap_or_default"):
            e = peel(e.get("recv"))
        return isinstance(e, dict) and e.get("k") in ("call", "mcall") and callee(e) in count_fns

    for n in walk(body):
        k = n.get("k")
        if k == "for" and _chars_enumerate(n.get("iter"), lets):
            for q, path in _binds(n.get("pat")):
                if path and path[-1] == 0 and len(path) <= 2:
                    tainted.add(q["id"])
        if k in ("letx", "let") and n.get("init") is not None:
            init = peel(n["init"])
            if isinstance(init, dict) and init.get("k") == "mcall" and init.get("m") == "next" and \
                    _chars_enumerate(init.get("recv"), lets):
                for q, path in _binds(n.get("pat")):
                    if path and path[-1] == 0:
                        tainted.add(q["id"])
            if _chars_count(n["init"]) or src_is_count_call(n["init"]):
                for q, path in _binds(n.get("pat")):
                    tainted.add(q["id"])
        if k == "match" and (_chars_count(n.get("e")) or src_is_count_call(n.get("e"))):
            for a in n.get("arms") or []:
                for q, path in _binds(a.get("pat")):
                    tainted.add(q["id"])
    # arithmetic on a count is a count
    for _ in range(3):
        for n in walk(body):
            if n.get("k") == "let" and n.get("init") is not None and (n.get("pat") or {}).get("k") == "bind":
                x = peel(n["init"])
                if isinstance(x, dict) and x.get("k") == "bin" and x.get("op") in ("+", "-") and \
                        any(y.get("k") == "local" and y.get("id") in tainted for y in walk(x)):
                    tainted.add(n["pat"]["id"])
                if isinstance(x, dict) and x.get("k") == "local" and x.get("id") in tainted:
                    tainted.add(n["pat"]["id"])
    returns = False
    if (b.get("output") or "") in ("std::option::Option<usize>", "usize"):
        def val(e):
            e = peel(e)
            while isinstance(e, dict) and e.get("k") == "block" and not e.get("stmts"):
                e = peel(e.get("expr"))
            if isinstance(e, dict) and e.get("k") == "call" and e.get("ctor") and (e.get("f") or "").endswith("::Some"):
                e = peel((e.get("args") or [None])[0])
            return isinstance(e, dict) and ((e.get("k") == "local" and e.get("id") in tainted) or _chars_count(e))
        for n in walk(body):
            if n.get("k") == "ret" and n.get("e") is not None and val(n["e"]):
                returns = True
        t = body
        while isinstance(t, dict) and t.get("k") == "block" and t.get("expr") is not None:
            t = t["expr"]
        if isinstance(t, dict) and val(t):
            returns = True
    return tainted, returns


def p7(rep, F):
    r = rep.rule("P7", "a character count is not a byte offset: no local that carries an index from "
                       "chars().enumerate() / chars().position() / chars().count() (directly, through + / -, or as the "
                       "result of a crate function returning such an index) reaches a bound of a text slice, "
                       "split_at or get(range)", floor=300)
    fns = [b for b in F.bodies if "body" in b and not b.get("exp") and b["kind"] in ("Fn", "AssocFn")]
    count_fns = set()
    for _ in range(2):
        for b in fns:
            _, ret = _analyse(F, b, count_fns)
            if ret:
                count_fns.add(b["path"])
    r["char_count_functions"] = sorted(count_fns)
    for b in fns:
        tainted, _ = _analyse(F, b, count_fns)
        for n in walk(b["body"]):
            site = None
            if n.get("k") == "index" and _is_str(n.get("bt")):
                site = (n.get("i"), n)
            elif n.get("k") == "mcall" and n.get("m") in ("split_at", "get", "get_unchecked", "split_at_checked",
                                                         "is_char_boundary") and _is_str(n.get("rt")) and n.get("args"):
                site = (n["args"][0], n)
            if site is None:
                continue
            r["instances"] += 1
            if not tainted:
                continue
            bad = [x for x in walk(site[0]) if x.get("k") == "local" and x.get("id") in tainted]
            if bad:
                nm = bad[0].get("oname") or bad[0].get("name")
                rep.add(Finding("P7", b["path"], "charidx:%s" % (bad[0].get("name")),
                                "%s uses `%s`, a character count (from chars().enumerate() / position() / count(), or "
                                "from a function returning one), as a byte offset into text at line %s: with a "
                                "multi-byte character before that position the slice panics or cuts at the wrong "
                                "place" % (b["path"], nm, n.get("ln")), b["file"], n.get("ln")))
    return r
