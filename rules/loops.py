"""P6: loop progress. A `while` loop whose condition reads some state must, on every path through its body that
returns to the condition, have touched that state (assignment, compound assignment, &mut method call, &mut loan);
a `loop` must contain an exit. A path that comes back to an unchanged condition never leaves the loop: that is a
hang whenever the path is taken, whatever the input that leads there. The rule proves nothing about *how much*
progress is made (that needs value reasoning); it is the structural necessary condition."""
from .common import Finding
from .facts import walk, peel

MUT_METHODS_HINT = ("&mut",)


def _root_local(n):
    """root local of a place expression (local, field, index, deref, reference); a method call yields a new value
    (an iterator, a copy) and is not a place of the receiver"""
    while isinstance(n, dict):
        k = n.get("k")
        if k == "local":
            return n["id"], n.get("name")
        if k in ("field", "index"):
            n = n.get("e")
        elif k in ("ref", "un", "paren"):
            n = n.get("e")
        elif k == "block" and not n.get("stmts") and n.get("expr") is not None:
            n = n["expr"]
        else:
            return None
    return None


def _touches(n, S):
    """node itself (not its children) mutates state rooted at a local in S"""
    k = n.get("k")
    if k in ("assign", "assignop"):
        r = _root_local(n.get("l"))
        return bool(r and r[0] in S)
    if k == "mcall":
        rt = n.get("rt") or ""
        if rt.startswith("&mut"):
            r = _root_local(n.get("recv"))
            if r and r[0] in S:
                return True
        for a in n.get("args") or []:
            if isinstance(a, dict) and a.get("k") == "ref" and a.get("mut"):
                r = _root_local(a.get("e"))
                if r and r[0] in S:
                    return True
    if k == "call":
        for a in n.get("args") or []:
            if isinstance(a, dict) and a.get("k") == "ref" and a.get("mut"):
                r = _root_local(a.get("e"))
                if r and r[0] in S:
                    return True
            # a `&mut T` local handed on as is (reborrow)
            if isinstance(a, dict) and a.get("k") == "local" and a.get("id") in S and \
                    (a.get("t") or "").startswith("&mut"):
                return True
    return False


def _any_touch(n, S):
    return any(_touches(x, S) for x in walk(n))


def paths(n, S):
    """set of (touched, end) over all paths through n; end in fall / continue / break / ret"""
    if n is None:
        return {(False, "fall")}
    if isinstance(n, list):
        cur = {(False, "fall")}
        for x in n:
            nxt = set()
            sub = paths(x, S)
            for t, e in cur:
                if e != "fall":
                    nxt.add((t, e))
                else:
                    for t2, e2 in sub:
                        nxt.add((t or t2, e2))
            cur = nxt
        return cur
    if not isinstance(n, dict):
        return {(False, "fall")}
    k = n.get("k")
    if k == "block":
        seq = list(n.get("stmts") or [])
        if n.get("expr") is not None:
            seq.append(n["expr"])
        return paths(seq, S)
    if k == "if":
        c = paths(n.get("cond"), S)
        t = paths(n.get("then"), S)
        e = paths(n.get("else"), S) if n.get("else") is not None else {(False, "fall")}
        out = set()
        for ct, ce in c:
            if ce != "fall":
                out.add((ct, ce))
                continue
            for bt, be in t | e:
                out.add((ct or bt, be))
        return out
    if k == "match":
        s = paths(n.get("e"), S)
        out = set()
        arms = set()
        for a in n.get("arms") or []:
            arms |= paths(a.get("body"), S)
        for st, se in s:
            if se != "fall":
                out.add((st, se))
                continue
            for bt, be in arms or {(False, "fall")}:
                out.add((st or bt, be))
        return out
    if k == "continue":
        return {(False, "continue")}
    if k == "break":
        return {(False, "break")}
    if k == "ret":
        return {(False, "ret")}
    if k == "try":
        sub = paths(n.get("e"), S)
        out = set()
        for t, e in sub:
            out.add((t, e))
            if e == "fall":
                out.add((t, "ret"))
        return out
    if k in ("for", "while", "loop", "closure"):
        # may run zero times; counted as touching when it can touch (no definite verdict possible otherwise)
        return {(_any_touch(n, S), "fall")}
    cur = {(False, "fall")}
    for key in ("recv", "args", "e", "l", "r", "init", "es", "fields", "base", "i"):
        v = n.get(key)
        if v is None:
            continue
        sub = paths(v if isinstance(v, dict) else list(v), S)
        cur = {(t or t2, e2 if e == "fall" else e) for t, e in cur for t2, e2 in sub}
    if _touches(n, S):
        cur = {(True, e) for _, e in cur}
    return cur


def p6(rep, F, only_files=None):
    r = rep.rule("P6", "loop progress: every path through the body of a `while` that returns to the condition "
                       "touches the state the condition reads (or the condition itself advances an iterator / a "
                       "cursor through a &mut call); every `loop` has an exit", floor=20)
    for b in F.bodies:
        if "body" not in b or b.get("exp") or "/tests" in (b.get("file") or ""):
            continue
        for n in walk(b["body"]):
            k = n.get("k")
            if k == "loop":
                if n.get("src") and "ForLoop" in n["src"]:
                    continue
                r["instances"] += 1
                exits = [x for x in walk(n.get("body")) if x.get("k") in ("break", "ret", "try")]
                if not exits:
                    rep.add(Finding("P6", b["path"], "loop:no-exit", "`loop` in %s has no break / return"
                                    % b["path"], b["file"], n.get("ln")))
                continue
            if k != "while":
                continue
            r["instances"] += 1
            cond = n.get("cond")
            # state read by the condition
            S = {}
            for x in walk(cond):
                if x.get("k") == "local":
                    S[x["id"]] = x.get("name")
            # the condition itself advances (iterator next(), cursor-moving &mut call)
            if any(x.get("k") == "mcall" and (x.get("rt") or "").startswith("&mut") for x in walk(cond)) or \
                    any(x.get("k") == "call" and any(isinstance(a, dict) and a.get("k") == "ref" and a.get("mut")
                                                        for a in x.get("args") or []) for x in walk(cond)):
                r["analysed"] += 1
                continue
            r["analysed"] += 1
            bad = [(t, e) for t, e in paths(n.get("body"), set(S)) if e in ("fall", "continue") and not t]
            if bad:
                rep.add(Finding("P6", b["path"], "while:%s" % ",".join(sorted(set(S.values()))),
                                "a path through the body of the `while` at line %s of %s returns to the condition "
                                "without touching what it reads (%s): once taken, the loop never ends"
                                % (n.get("ln"), b["path"], ", ".join(sorted(set(S.values())))),
                                b["file"], n.get("ln")))
    return r
