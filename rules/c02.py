"""C02 — MT round trip is stable."""
from .common import Report
from . import emit
from . import accept
from . import grules, roundtrip, headers, numdate

LEVEL = "translation_validation"
EXPLANATION = ("Sibling programs are compared instance by instance: each of the 30 parse_from_block4 with its "
               "to_mt_string (same fields, same order G4; step tag = emitted tag of the step's type G5; model kind "
               "= step kind = append kind G6), each of the 114 field parse/to_swift_string pairs (every stored "
               "component is written, every variant delegates to its payload, CU), header parse vs Display (H1, "
               "H3), message assembly (H2), line-ending discipline (LE), and amount rendering vs accepted input "
               "(N2/N3). Equality of re-parsed values is not decided.")
ASSUMPTIONS = ["the may-flow extraction of parse steps and the append walk see every parse/append call "
               "(fail-closed floors: 30 functions, 300 sites each)"]


def run(F, tier):
    rep = Report("C02")
    tms, ft = grules.models(F)
    grules.g4_g5_g6(rep, tms)
    roundtrip.component_usage(rep, F, ft)
    roundtrip.line_endings(rep, F)
    headers.h1(rep, F)
    headers.h3(rep, F)
    headers.h2(rep, F)
    numdate.n2_n3(rep, F, ft)
    rep.programs = 2 * len(tms) + 2 * len(ft.types) + 8
    rep.cells = sum(x["instances"] for x in rep.rules.values())
    for tm in tms[:2]:
        if tm.g:
            rep.sample({"type": tm.name,
                        "parser_steps": ["%s:%s" % (s.tag, s.kind) for s in tm.g.sites][:30],
                        "serialiser_appends": ["%s:%s" % (".".join(a.path or ("?",)), a.kind) for a in tm.w.appends][:30]})
    accept.u7(rep, F, "fields")
    accept.u7(rep, F, "headers")
    emit.e1(rep, F, "fields")
    emit.e1(rep, F, "headers")
    emit.e1(rep, F, "assembly")
    return rep
