"""C08 — JSON conversion is lossless and agrees with the MT serialisation."""
from .common import Report
from . import jsonsurf, grules, numdate, dispatch

LEVEL = "translation_validation"
EXPLANATION = ("The JSON surface is read from what the serde derives actually generated (serialize_entry / "
               "FlatMapSerializer / serialize_newtype_variant calls and the __FieldVisitor key tables), not from "
               "attributes: key uniqueness per object including flattened option enums (J1), serialiser key set = "
               "deserialiser key table for every derived and hand-written pair (J2), distinguishability of "
               "untagged variants (J4), ordered containers for everything a repetition fills (J6), hand-written "
               "date/time codec pattern symmetry (T3), the plugin publish/parse tables use one type per arm (D1), "
               "and the single guarded text->f64 site (N1: finite JSON numbers). Value equality after the JSON "
               "round trip is not decided.")
ASSUMPTIONS = ["serde's derive output is what rustc expanded for the real build flags",
               "serde_json ignores unknown keys unless deny_unknown_fields (none is used)"]


def run(F, tier):
    rep = Report("C08")
    S = jsonsurf.Surface(F)
    tms, ft = grules.models(F)
    jsonsurf.j1(rep, F, S)
    jsonsurf.j2(rep, F, S)
    jsonsurf.j4(rep, F, S)
    jsonsurf.j5(rep, F, S)
    jsonsurf.j6(rep, F, tms)
    jsonsurf.j7(rep, F)
    jsonsurf.j8(rep, F)
    numdate.strftime_census(rep, F)
    numdate.t4(rep, F)
    numdate.n1(rep, F)
    r, tabs, ids = dispatch.d1(rep, F)
    rep.programs = len(S.ser) + len(S.de)
    rep.cells = sum(x["instances"] for x in rep.rules.values())
    w = S.struct_write("messages::mt103::MT103")
    rep.sample({"MT103_json_keys": [(k or "<flatten>", f) for k, f, _, _ in (w or [])][:12]})
    return rep
