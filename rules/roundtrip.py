"""Extra rules for C02/C03/C09: component usage, line endings, error payloads, minimum occurrence."""
import json
from .common import Finding
from .facts import walk, is_call, lit_val, peel, callee
from . import grammar as G


def component_usage(rep, F, ft):
    r = rep.rule("CU", "component usage: every component a field struct stores (all struct fields are "
                       "initialised by parse) is read by its to_swift_string (directly or through a method of "
                       "the same type); a stored component that is never written is lost on re-serialisation",
                 floor=240)
    for t in ft.types:
        if ft.is_enum(t):
            continue
        fl = [n for n, _ in ft.struct_fields(t)]
        b = ft.fn(t, "to_swift_string")
        if b is None or "body" not in b:
            rep.fail_closed("CU: no to_swift_string for %s" % t)
            continue
        r["analysed"] += 1
        reads = ft.reads_of_self(b)
        for n in walk(b["body"]):
            if n.get("k") in ("mcall", "call"):
                hb = F.body_by_path.get(callee(n))
                if hb is not None and hb.get("impl_self") == t and "body" in hb:
                    reads |= ft.reads_of_self(hb)
        for f in fl:
            r["instances"] += 1
            if f not in reads:
                rep.add(Finding("CU", b["path"], "unread:%s" % f,
                                "%s.%s is stored by parse and never read by to_swift_string: the component is "
                                "dropped from the serialised field" % (G.short(t), f), b["file"], b["line"]))
    # enums: every variant has an arm that delegates to its payload
    for t in ft.types:
        if not ft.is_enum(t):
            continue
        b = ft.fn(t, "to_swift_string")
        if b is None:
            continue
        r["analysed"] += 1
        arms = set()
        for n in walk(b["body"]):
            if n.get("k") == "match":
                for a in n["arms"]:
                    p = a["pat"]
                    if p.get("k") in ("pts", "pstruct"):
                        vn = (p.get("path") or "").rsplit("::", 1)[-1]
                        binds = [q for q in (p.get("pats") or []) if q.get("k") == "bind"]
                        used = binds and any(x.get("k") == "local" and x.get("id") == binds[0]["id"]
                                             for x in walk(a["body"]))
                        deleg = any(is_call(x, "SwiftField::to_swift_string") for x in walk(a["body"]))
                        if used and deleg:
                            arms.add(vn)
        for vn, pt in ft.variants(t):
            r["instances"] += 1
            if vn not in arms:
                rep.add(Finding("CU", b["path"], "variant:%s" % vn,
                                "%s::to_swift_string does not serialise variant %s through its payload"
                                % (G.short(t), vn), b["file"], b["line"]))
    return r


def line_endings(rep, F):
    r = rep.rule("LE", "line endings: append_field / append_optional_field / append_vec_field push exactly the "
                       "field text followed by \"\\r\\n\"; finalize_mt_string removes one trailing CRLF through "
                       "remove_trailing_crlf (guarded by ends_with); \"\\r\\n\" is rewritten only in "
                       "SwiftMessage::to_mt_message", floor=5)
    from . import emit
    tpls = {}
    for name in ("append_field", "append_optional_field", "append_vec_field"):
        b = F.body_by_path.get("parser::utils::" + name)
        if b is None:
            rep.fail_closed("LE: parser::utils::%s not found" % name)
            continue
        try:
            tpls[name] = (emit.EmitExtract(F, b).run_emit(), b)
        except RecursionError:
            tpls[name] = ([], b)

    def flat(items, out, depth=0):
        for it in items or []:
            k = it[0]
            if k == "lit":
                out.append(it[1])
            elif k == "val":
                out.append("field" if "to_swift_string" in it[1] else "?" + it[1])
            elif k == "if":
                a, b_ = [], []
                flat(it[2], a, depth)
                flat(it[3], b_, depth)
                out.extend(a if a else b_)       # one branch emits, the other is the absent case
                if a and b_ and a != b_:
                    out.append("?branches")
            elif k in ("for", "xform", "fmtd"):
                flat(it[2], out, depth)
            elif k == "call" and len(it) > 1 and it[1] in tpls and depth < 3:
                flat(tpls[it[1]][0], out, depth + 1)
            else:
                out.append("?" + json.dumps(it)[:60])
    for name, (t, b) in tpls.items():
        r["instances"] += 1
        seq = []
        flat(t, seq)
        merged = []
        for x in seq:
            if merged and not x.startswith(("field", "?")) and not merged[-1].startswith(("field", "?")):
                merged[-1] += x
            else:
                merged.append(x)
        if merged == ["field", "\r\n"]:
            continue
        if any(x.startswith("?") for x in merged) or not merged:
            rep.notes.append("LE: %s is built in a way the template extractor does not interpret (%s): undecided"
                             % (name, merged[:3]))
            continue
        rep.add(Finding("LE", b["path"], "shape:%s" % "|".join(x.encode("unicode_escape").decode() for x in merged),
                        "%s pushes %s instead of the field text followed by CRLF" % (name, merged), b["file"], b["line"]))
    b = F.body_by_path.get("parser::utils::remove_trailing_crlf")
    if b is None:
        rep.fail_closed("LE: remove_trailing_crlf not found")
    else:
        r["instances"] += 1
        lits = [lit_val(peel((n.get("args") or [None])[0])) for n in walk(b["body"])
                if n.get("k") == "mcall" and n.get("m") in ("ends_with", "strip_suffix", "trim_end_matches")]
        cut = [n for n in walk(b["body"]) if n.get("k") == "mcall" and n.get("m") == "truncate"]
        minus = [lit_val(x.get("r")) for c in cut for x in walk(c) if x.get("k") == "bin" and x.get("op") == "-"]
        by_suffix = any(n.get("k") == "mcall" and n.get("m") == "strip_suffix" for n in walk(b["body"]))
        if lits and any(l != "\r\n" for l in lits):
            rep.add(Finding("LE", b["path"], "shape", "remove_trailing_crlf tests for %r, not for one trailing CRLF"
                            % lits, b["file"], b["line"]))
        elif lits and cut and ((minus and all(m == 2 for m in minus)) or (by_suffix and not minus)):
            pass
        elif lits and minus and any(m != 2 for m in minus):
            rep.add(Finding("LE", b["path"], "shape", "remove_trailing_crlf cuts %s bytes for a two-byte CRLF"
                            % minus, b["file"], b["line"]))
        elif not lits:
            rep.add(Finding("LE", b["path"], "shape", "remove_trailing_crlf no longer tests for a trailing CRLF",
                            b["file"], b["line"]))
        else:
            rep.notes.append("LE: remove_trailing_crlf is written in a shape the rule does not interpret: undecided")
    b = F.body_by_path.get("parser::utils::finalize_mt_string")
    if b is not None:
        r["instances"] += 1
        if not any(is_call(n, "parser::utils::remove_trailing_crlf") for n in walk(b["body"])):
            rep.add(Finding("LE", b["path"], "no-trim", "finalize_mt_string does not call remove_trailing_crlf",
                            b["file"], b["line"]))
    for bb in F.bodies:
        if "body" not in bb or bb.get("exp"):
            continue
        for n in walk(bb["body"]):
            if n.get("k") == "mcall" and n.get("m") in ("replace", "replacen"):
                a0 = lit_val(peel((n.get("args") or [None])[0]))
                if a0 in ("\r\n", "\n", "\r") and bb["path"].startswith(("messages::", "swift_message::", "parser::utils")):
                    r["instances"] += 1
                    if bb["path"] != "swift_message::SwiftMessage::<T>::to_mt_message":
                        rep.add(Finding("LE", bb["path"], "rewrite:%s" % a0.encode("unicode_escape").decode(),
                                        "%s rewrites line endings; only to_mt_message may" % bb["path"],
                                        bb["file"], n.get("ln")))
    return r


def error_payload(rep, F):
    r = rep.rule("EP", "error payload: in MessageParser the InvalidFieldFormat built for a failing T::parse "
                       "carries the tag in scope (tag / full tag) as field_tag and the extracted content as value; "
                       "MissingRequiredField carries the requested tag and the parser's message type", floor=6)
    helpers = {}
    mp_bodies = [b for b in F.bodies if b["path"].startswith("parser::message_parser::MessageParser::<'a>::") and "body" in b]
    for b in mp_bodies:
        ps = {p["id"]: p["name"] for p in (b.get("params") or []) if p.get("k") == "bind"}
        lets = {}
        for n in walk(b["body"]):
            if n.get("k") == "let" and n.get("pat") is not None:
                for q in walk_binds(n["pat"]):
                    lets[q["id"]] = (q["name"], n.get("init"))
            if n.get("k") == "letx":
                for q in walk_binds(n["pat"]):
                    lets[q["id"]] = (q["name"], n["init"])
            if n.get("k") == "match":
                for a in n["arms"]:
                    for q in walk_binds(a["pat"]):
                        lets[q["id"]] = (q["name"], n["e"])
        # the tag in scope: the first non-self parameter, and whatever is handed to extract_field as the tag
        plist = [p for p in (b.get("params") or []) if p.get("k") == "bind" and p.get("name") != "self"]
        tag_ids = {plist[0]["id"]} if plist else set()
        for n in walk(b["body"]):
            if is_call(n, "MessageParser::<'a>::extract_field"):
                a0 = peel((n.get("args") or [None])[0])
                if isinstance(a0, dict) and a0.get("k") == "local":
                    tag_ids.add(a0["id"])
        for n in walk(b["body"]):
            if n.get("k") == "struct" and (n.get("path") or "").endswith("InvalidFieldFormatError"):
                r["instances"] += 1
                fs = {f["name"]: f["e"] for f in n["fields"]}
                ft_ = peel(fs.get("field_tag"))
                val = peel(fs.get("value"))
                okt = isinstance(ft_, dict) and ft_.get("k") == "local" and ft_["id"] in tag_ids
                okv = False
                if isinstance(val, dict) and val.get("k") == "local":
                    nm, init = lets.get(val["id"], (None, None))
                    okv = init is not None and any(is_call(x, "MessageParser::<'a>::extract_field") for x in walk(init))
                # built in a helper from its parameters: judged at the helper's call sites
                allp = [p for p in (b.get("params") or []) if p.get("k") == "bind"]
                pidx = {p["id"]: i for i, p in enumerate(allp)}
                if (not okt or not okv) and isinstance(ft_, dict) and ft_.get("k") == "local" and \
                        isinstance(val, dict) and val.get("k") == "local" and \
                        (okt or ft_["id"] in pidx) and (okv or val["id"] in pidx):
                    helpers[b["path"]] = (None if okt else pidx[ft_["id"]], None if okv else pidx[val["id"]])
                    r["instances"] -= 1
                    continue
                if not okt:
                    rep.add(Finding("EP", b["path"], "field_tag", "InvalidFieldFormat in %s does not name the tag "
                                    "being parsed" % b["name"], b["file"], n.get("ln")))
                if not okv:
                    rep.add(Finding("EP", b["path"], "value", "InvalidFieldFormat in %s does not carry the "
                                    "extracted field content" % b["name"], b["file"], n.get("ln")))
            if n.get("k") == "struct" and (n.get("path") or "").endswith("ParseError::MissingRequiredField"):
                r["instances"] += 1
                fs = {f["name"]: f["e"] for f in n["fields"]}
                ft_ = peel(fs.get("field_tag"))
                mt = fs.get("message_type")
                okt = isinstance(ft_, dict) and ft_.get("k") == "local" and plist and ft_["id"] == plist[0]["id"]
                okm = any(x.get("k") == "field" and x.get("name") == "message_type" for x in walk(mt))
                if not okt:
                    rep.add(Finding("EP", b["path"], "missing:field_tag", "MissingRequiredField in %s does not "
                                    "name the requested tag" % b["name"], b["file"], n.get("ln")))
                if not okm:
                    rep.add(Finding("EP", b["path"], "missing:message_type", "MissingRequiredField in %s does "
                                    "not carry the parser's message type" % b["name"], b["file"], n.get("ln")))
    for b in mp_bodies:
        if b["path"] in helpers:
            continue
        plist = [p for p in (b.get("params") or []) if p.get("k") == "bind" and p.get("name") != "self"]
        tag_ids = {plist[0]["id"]} if plist else set()
        content_ids = set()
        for n in walk(b["body"]):
            if is_call(n, "MessageParser::<'a>::extract_field"):
                a0 = peel((n.get("args") or [None])[0])
                if isinstance(a0, dict) and a0.get("k") == "local":
                    tag_ids.add(a0["id"])
            if n.get("k") in ("let", "letx") and n.get("init") is not None and \
                    any(is_call(x, "MessageParser::<'a>::extract_field") for x in walk(n["init"])):
                content_ids |= {q["id"] for q in walk_binds(n["pat"])}
            if n.get("k") == "match" and any(is_call(x, "MessageParser::<'a>::extract_field") for x in walk(n["e"])):
                for a_ in n["arms"]:
                    content_ids |= {q["id"] for q in walk_binds(a_["pat"])}
        for n in walk(b["body"]):
            if n.get("k") in ("call", "mcall") and callee(n) in helpers:
                r["instances"] += 1
                ti, vi = helpers[callee(n)]
                args = list(n.get("args") or [])
                if n.get("k") == "mcall":
                    args = [n.get("recv")] + args
                if ti is not None:
                    a_ = peel(args[ti]) if ti < len(args) else None
                    if not (isinstance(a_, dict) and a_.get("k") == "local" and a_["id"] in tag_ids):
                        rep.add(Finding("EP", b["path"], "field_tag", "InvalidFieldFormat in %s does not name the "
                                        "tag being parsed" % b["name"], b["file"], n.get("ln")))
                if vi is not None:
                    a_ = peel(args[vi]) if vi < len(args) else None
                    if not (isinstance(a_, dict) and a_.get("k") == "local" and a_["id"] in content_ids):
                        rep.add(Finding("EP", b["path"], "value", "InvalidFieldFormat in %s does not carry the "
                                        "extracted field content" % b["name"], b["file"], n.get("ln")))
    return r


def walk_binds(p):
    if not isinstance(p, dict):
        return
    if p.get("k") == "bind":
        yield p
    for q in p.get("pats") or []:
        yield from walk_binds(q)
    if p.get("pat"):
        yield from walk_binds(p["pat"])
    for f in p.get("fields") or []:
        yield from walk_binds(f.get("pat"))


def _empty_checks(body, F=None):
    """[(loop depth)] of every `if <vec>.is_empty() / len()==0 / len()<1 { return Err }` in a parser body (and in
    the crate-local helpers of the same module it calls: a repetition parsed by a helper is checked there)"""
    out = []
    seen = set()

    def is_empty_test(c):
        c = peel(c)
        if not isinstance(c, dict):
            return False
        if c.get("k") == "mcall" and c.get("m") == "is_empty":
            return True
        if c.get("k") == "bin" and c.get("op") in ("==", "<", "<="):
            l, r_ = peel(c["l"]), peel(c["r"])
            if isinstance(l, dict) and l.get("k") == "mcall" and l.get("m") == "len" and isinstance(lit_val(r_), int):
                v = lit_val(r_)
                return (c["op"] == "==" and v == 0) or (c["op"] == "<" and v == 1) or (c["op"] == "<=" and v == 0)
        return False

    def go(n, depth):
        if isinstance(n, list):
            for x in n:
                go(x, depth)
            return
        if not isinstance(n, dict):
            return
        k = n.get("k")
        if k == "closure":
            return
        if k == "if" and is_empty_test(n.get("cond")) and \
                any(x.get("k") == "ret" for x in walk(n["then"])) and \
                any(x.get("k") == "call" and (x.get("f") or "").endswith("::Err") for x in walk(n["then"])):
            out.append(depth)
        if k in ("call", "mcall") and F is not None:
            f = callee(n)
            hb = F.body_by_path.get(f)
            if hb is not None and "body" in hb and not hb.get("exp") and f not in seen and len(seen) < 6 and \
                    "::messages::" in "::" + f and (hb.get("output") or "").startswith("std::result::Result<"):
                seen.add(f)
                go(hb["body"], depth)
        d2 = depth + 1 if k in ("while", "for", "loop") else depth
        for kk, v in n.items():
            if kk in ("pat", "pats", "params"):
                continue
            if isinstance(v, (dict, list)):
                go(v, d2)
    go(body, 0)
    return sorted(out)


# confirmed on the reviewed tree: where each type enforces "at least one" (0 = after the loops, 1 = per iteration)
MIN_CHECKS = {"MT110": [0], "MT920": [0], "MT935": [0, 1], "MT940": [0]}


def min_occurrence(rep, tms):
    r = rep.rule("MO", "minimum occurrence: every 'at least one' check of the reviewed tree (`if <vec>.is_empty() { "
                       "return Err }`, per message and per repetition) is still made at the same loop depth; a "
                       "check moved out of the repetition no longer holds for each occurrence", floor=4)
    have = {}
    for tm in tms:
        if tm.g is None:
            continue
        body = tm.F.body_by_path.get(tm.pfn, {}).get("body")
        if body is None:
            continue
        cs = _empty_checks(body, tm.F)
        if cs:
            have[tm.name] = cs
    for t in sorted(MIN_CHECKS):
        want = MIN_CHECKS[t]
        got = list(have.get(t, []))
        r["instances"] += len(want)
        for d in want:
            if d in got:
                got.remove(d)
            else:
                tm = [x for x in tms if x.name == t][0]
                rep.add(Finding("MO", tm.pfn, "min-one:depth%d" % d,
                                "%s no longer rejects %s" % (t, "a message without its mandatory repetitive sequence"
                                                             if d == 0 else "a repetition that lacks its mandatory "
                                                             "repeating field (the check is gone from the loop)"),
                                tm.file, (tm.pb or {}).get("line")))
    r["types_with_minimum"] = {k: v for k, v in sorted(have.items())}
    return r
