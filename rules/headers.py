"""H-rules: envelope (blocks 1,2,3,5) parse <-> Display symmetry and message assembly."""
import json
import re
from .common import Finding
from .facts import walk, is_call, lit_val, peel, callee

TAG_OPEN = re.compile(r"\{([A-Z0-9]{3})[:}]")


def _display_fn(F, ty):
    for b in F.bodies:
        if b.get("impl_self") == ty and (b.get("impl_trait") or "").endswith("fmt::Display") and b["name"] == "fmt":
            return b
    return None


def _tags_in(body):
    out = {}
    for n in walk(body):
        if n.get("k") == "lit" and n.get("t") == "str":
            for m in TAG_OPEN.finditer(n["v"]):
                out.setdefault(m.group(1), n.get("ln"))
        if n.get("k") == "fmt":
            for p in n["pieces"]:
                if isinstance(p, str):
                    for m in TAG_OPEN.finditer(p):
                        out.setdefault(m.group(1), n.get("ln"))
    return out


def _assigned_fields(body, recv_name=None):
    """struct fields assigned (x.f = ..) or initialised in a struct expression"""
    out = {}
    for n in walk(body):
        if n.get("k") == "assign":
            l = n["l"]
            if l.get("k") == "field":
                out.setdefault(l["name"], n.get("ln"))
    return out


def _self_reads(body):
    out = set()
    for n in walk(body):
        if n.get("k") == "field":
            e = peel(n["e"])
            if isinstance(e, dict) and e.get("k") == "local" and e.get("name") == "self":
                out.add(n["name"])
    return out


def h1(rep, F):
    r = rep.rule("H1", "header tag symmetry: every block-3 / block-5 tag that parse recognises is written by "
                       "Display, and every struct field parse assigns is read by Display (a recognised tag is "
                       "never lost on re-serialisation)", floor=17)
    for ty, blk in (("headers::UserHeader", "3"), ("headers::Trailer", "5")):
        pb = F.fn(ty, "parse", None)
        db = _display_fn(F, ty)
        if pb is None or db is None:
            rep.fail_closed("H1: %s parse/Display not found" % ty)
            continue
        P = _tags_in(pb["body"])
        D = _tags_in(db["body"])
        r["analysed"] += 2
        r.setdefault("tags", {})[ty] = {"parse": sorted(P), "display": sorted(D)}
        for t in sorted(P):
            r["instances"] += 1
            if t not in D:
                rep.add(Finding("H1", db["path"], "block%s:%s" % (blk, t),
                                "block %s tag {%s:} is recognised by %s::parse but never written by its Display: "
                                "an accepted message loses the tag when serialised" % (blk, t, ty.split("::")[-1]),
                                db["file"], db["line"]))
        assigned = _assigned_fields(pb["body"])
        reads = _self_reads(db["body"])
        for f, ln in sorted(assigned.items()):
            r["instances"] += 1
            if f not in reads:
                rep.add(Finding("H1", db["path"], "block%s:field:%s" % (blk, f),
                                "%s.%s is filled by parse and never read by Display" % (ty.split("::")[-1], f),
                                db["file"], db["line"]))
    return r


def _slice_sources(expr, lets, pid, depth=0):
    """set of constant (start,end) slices of the input param that can flow into expr"""
    out = set()
    for n in walk(expr):
        if n.get("k") == "index":
            base = peel(n["e"])
            if isinstance(base, dict) and base.get("k") == "local" and base.get("id") == pid and \
                    n["i"].get("k") == "struct":
                fs = {f["name"]: lit_val(f["e"]) for f in n["i"].get("fields") or []}
                out.add((fs.get("start"), fs.get("end")))
        if n.get("k") == "local" and n.get("id") in lets and depth < 6:
            out |= _slice_sources(lets[n["id"]], lets, pid, depth + 1)
    return out


def h3(rep, F):
    r = rep.rule("H3", "component usage in blocks 1 and 2: every component that the fixed-offset header "
                       "parsers store is either written by Display or derived from a slice that a written "
                       "component also comes from", floor=15)
    targets = [("headers::BasicHeader", "headers::BasicHeader"),
               ("headers::ApplicationHeader", "headers::InputApplicationHeader"),
               ("headers::ApplicationHeader", "headers::OutputApplicationHeader")]
    for pty, sty in targets:
        pb = F.fn(pty, "parse", None)
        db = _display_fn(F, sty)
        if pb is None or db is None:
            rep.fail_closed("H3: parse of %s or Display of %s not found" % (pty, sty))
            continue
        ps = pb.get("params") or []
        pid = ps[0]["id"] if ps and ps[0].get("k") == "bind" else None
        lets = {}
        for n in walk(pb["body"]):
            if n.get("k") == "let" and n["pat"].get("k") == "bind" and n.get("init") is not None:
                lets[n["pat"]["id"]] = n["init"]
        reads = _self_reads(db["body"])
        for n in walk(pb["body"]):
            if n.get("k") == "struct" and (n.get("path") or "") == sty:
                src = {f["name"]: _slice_sources(f["e"], lets, pid) for f in n["fields"]}
                written = set()
                for f in n["fields"]:
                    if f["name"] in reads:
                        written |= src[f["name"]]
                for f in n["fields"]:
                    r["instances"] += 1
                    if f["name"] in reads:
                        continue
                    if src[f["name"]] and src[f["name"]] <= written:
                        continue       # derived from text that is written through another component
                    rep.add(Finding("H3", db["path"], "%s.%s" % (sty.split("::")[-1], f["name"]),
                                    "%s.%s is read from the header text by parse and not written by Display"
                                    % (sty.split("::")[-1], f["name"]), db["file"], db["line"]))
    # direction handling
    pb = F.fn("headers::ApplicationHeader", "parse", None)
    if pb is not None:
        r["instances"] += 1
        ok = False
        for n in walk(pb["body"]):
            if n.get("k") == "match":
                keys = []
                wild_err = False
                for a in n["arms"]:
                    if a["pat"].get("k") == "plit":
                        keys.append(a["pat"]["v"])
                    elif a["pat"].get("k") in ("_", "bind"):
                        wild_err = any(x.get("k") == "call" and (x.get("f") or "").endswith("::Err")
                                       for x in walk(a["body"]))
                if sorted(keys) == ["I", "O"] and wild_err:
                    ok = True
        if not ok:
            rep.add(Finding("H3", pb["path"], "direction",
                            "ApplicationHeader::parse does not dispatch on exactly \"I\" / \"O\" with an error "
                            "for anything else", pb["file"], pb["line"]))
    return r


def h2(rep, F):
    r = rep.rule("H2", "envelope assembly: to_mt_message emits {1:..}{2:..}[{3:..}]{4:..}[{5:..}] in that "
                       "order, each from the corresponding part of the message (basic_header, "
                       "application_header, user_header, fields.to_mt_string(), trailer); read from the emission "
                       "template, so format!/write!/push_str construction is the same thing", floor=5)
    b = F.body_by_path.get("swift_message::SwiftMessage::<T>::to_mt_message")
    if b is None:
        rep.fail_closed("H2: SwiftMessage::to_mt_message not found")
        return r
    from . import emit
    try:
        tpl = emit.EmitExtract(F, b).run_emit()
    except RecursionError:
        tpl = []
    flat = []           # ("lit", text) / ("val", text) in emission order, branches flattened in order

    def go(items):
        for it in items or []:
            k = it[0]
            if k == "lit":
                flat.append(("lit", it[1]))
            elif k == "val":
                flat.append(("val", it[1]))
            elif k == "if":
                go(it[2])
                go(it[3])
            elif k == "for":
                go(it[2])
            elif k in ("xform", "fmtd"):
                go(it[2])
            elif k == "match":
                for c, x in it[1]:
                    go(x)
            else:
                flat.append(("?", json.dumps(it)[:80]))
    go(tpl)
    want = {"1": "basic_header", "2": "application_header", "3": "user_header", "4": "fields", "5": "trailer"}
    seq = []
    cur = None
    for kind, t in flat:
        if kind == "lit":
            for m in re.finditer(r"\{(\d):", t):
                if cur is None or cur[0] != m.group(1):
                    cur = [m.group(1), set()]
                    seq.append(cur)
        elif kind == "val" and cur is not None:
            for m in re.finditer(r"self\.(\w+)", t):
                cur[1].add(m.group(1))
    unknown = [t for kind, t in flat if kind == "?"]
    r["sequence"] = [(k, sorted(o)) for k, o in seq]
    if not seq and unknown:
        # the template extractor met a construction it does not interpret: nothing can be said either way
        r["instances"] += 5
        rep.notes.append("H2: the assembly of to_mt_message is built in a way the template extractor does not "
                         "interpret (%s): undecided" % unknown[0])
        return r
    for k, o in seq:
        r["instances"] += 1
        if want.get(k) not in o:
            rep.add(Finding("H2", b["path"], "block%s:source" % k,
                            "block %s is assembled from %s instead of self.%s" % (k, sorted(o), want.get(k)),
                            b["file"], b["line"]))
    if [k for k, _ in seq] != ["1", "2", "3", "4", "5"]:
        rep.add(Finding("H2", b["path"], "order:%s" % "".join(k for k, _ in seq),
                        "to_mt_message emits the blocks in the order %s" % [k for k, _ in seq],
                        b["file"], b["line"]))
    return r


# ---------------------------------------------------------------------------
# H4: fixed-offset headers are written in the order they are read

def _component_offsets(pb, pid, struct_path):
    """{component path: smallest start offset of the input slices it is built from} for one header struct"""
    lets = {}
    for n in walk(pb["body"]):
        if n.get("k") == "let" and n["pat"].get("k") == "bind" and n.get("init") is not None:
            lets[n["pat"]["id"]] = n["init"]
    out = {}

    def fill(sexpr, prefix):
        for f in sexpr.get("fields") or []:
            e = f["e"]
            inner = peel(e)
            # nested struct expression or a local bound to one
            tgt = None
            if isinstance(inner, dict) and inner.get("k") == "struct" and (inner.get("path") or "").startswith("headers::"):
                tgt = inner
            if isinstance(inner, dict) and inner.get("k") == "local" and inner["id"] in lets:
                li = peel(lets[inner["id"]])
                if isinstance(li, dict) and li.get("k") == "struct" and (li.get("path") or "").startswith("headers::"):
                    tgt = li
            if tgt is not None:
                fill(tgt, prefix + f["name"] + ".")
                continue
            src = _slice_sources(e, lets, pid)
            starts = [a for a, b in src if isinstance(a, int)]
            if starts:
                out[prefix + f["name"]] = min(starts)
    for n in walk(pb["body"]):
        if n.get("k") == "struct" and (n.get("path") or "") == struct_path:
            fill(n, "")
    return out


def _emission_order(db, roots):
    """component paths in the order a Display body writes them (main format! + following push_str calls)"""
    lets = {}
    for n in walk(db["body"]):
        if n.get("k") == "let" and n["pat"].get("k") == "bind" and n.get("init") is not None:
            lets[n["pat"]["id"]] = n["init"]
        if n.get("k") == "letx":
            for q in _binds(n["pat"]):
                lets[q["id"]] = n["init"]

    def paths(e, depth=0):
        out = []
        for x in walk(e):
            if x.get("k") == "field":
                chain = []
                y = x
                while isinstance(y, dict) and y.get("k") == "field":
                    chain.append(y["name"])
                    y = peel(y["e"])
                if isinstance(y, dict) and y.get("k") == "local" and y.get("id") in roots:
                    out.append(".".join(reversed(chain)))
            if x.get("k") == "local" and x.get("id") in lets and x.get("id") not in roots and depth < 4:
                out += paths(lets[x["id"]], depth + 1)
        # keep only maximal paths
        return [p for p in out if not any(q != p and q.startswith(p + ".") for q in out)]

    fmts = [n for n in walk(db["body"]) if n.get("k") == "fmt" and len(n.get("args") or []) >= 3]
    if not fmts:
        return []
    main = max(fmts, key=lambda n: len(n["args"]))
    seq = []
    for a in main["args"]:
        ps = paths(a)
        if ps:
            seq.append(ps[0])
    after = False
    for n in walk(db["body"]):
        if n is main:
            after = True
        if after and n.get("k") == "mcall" and n.get("m") == "push_str":
            ps = paths(n.get("args") or [])
            if ps:
                seq.append(ps[0])
    return seq


def _binds(p):
    if not isinstance(p, dict):
        return
    if p.get("k") == "bind":
        yield p
    for q in p.get("pats") or []:
        yield from _binds(q)
    if p.get("pat"):
        yield from _binds(p["pat"])
    for f in p.get("fields") or []:
        yield from _binds(f.get("pat"))


def h4(rep, F):
    r = rep.rule("H4", "fixed-offset headers are written in the order they are read: the components a Display "
                       "implementation of block 1 / block 2 emits follow increasing byte offsets of the slices "
                       "from which parse builds them (all Display variants of the output header included)", floor=4)
    cases = [("headers::BasicHeader", "headers::BasicHeader", "headers::BasicHeader"),
             ("headers::ApplicationHeader", "headers::InputApplicationHeader", "headers::InputApplicationHeader"),
             ("headers::ApplicationHeader", "headers::OutputApplicationHeader", "headers::OutputApplicationHeader"),
             ("headers::ApplicationHeader", "headers::OutputApplicationHeader", "headers::ApplicationHeader")]
    for pty, sty, dty in cases:
        pb = F.fn(pty, "parse", None)
        db = _display_fn(F, dty)
        if pb is None or db is None:
            rep.fail_closed("H4: parse of %s or Display of %s not found" % (pty, dty))
            continue
        ps = pb.get("params") or []
        pid = ps[0]["id"] if ps and ps[0].get("k") == "bind" else None
        offs = _component_offsets(pb, pid, sty)
        # roots of the Display: self, and variables bound by matching on self (enum arms)
        roots = set()
        for p in db.get("params") or []:
            if p.get("k") == "bind" and p.get("name") == "self":
                roots.add(p["id"])
        body = db["body"]
        if dty.endswith("ApplicationHeader") and dty == "headers::ApplicationHeader":
            # the Output arm
            body = None
            for n in walk(db["body"]):
                if n.get("k") == "match":
                    for a in n["arms"]:
                        if "Output" in (a["pat"].get("path") or ""):
                            body = a["body"]
                            for q in _binds(a["pat"]):
                                roots.add(q["id"])
            if body is None:
                continue
        seq = _emission_order({"body": body}, roots)
        r["instances"] += 1
        r.setdefault("orders", {})[dty + "/" + sty.rsplit("::", 1)[-1]] = [(c, offs.get(c)) for c in seq]
        last = -1
        for c in seq:
            o = offs.get(c)
            if o is None:
                continue
            if o < last:
                rep.add(Finding("H4", db["path"], "%s:%s" % (sty.rsplit("::", 1)[-1], c),
                                "Display of %s writes component `%s` (read from byte %d) after a component read from "
                                "byte %d: the re-serialised header has its components in a different order than "
                                "the text that was parsed" % (sty.rsplit("::", 1)[-1], c, o, last), db["file"], db["line"]))
            last = max(last, o)
        if len([c for c in seq if c in offs]) < 3:
            rep.fail_closed("H4: could not relate the Display of %s to the offsets of parse (%s)" % (dty, seq))
    return r


# ---------------------------------------------------------------------------
# H5: each header parser is fed from its own block

BLOCK_OF = {"BasicHeader": 1, "ApplicationHeader": 2, "UserHeader": 3, "Trailer": 5}


def h5(rep, F):
    """In every function that cuts a message into blocks (`extract_block(text, k)`) and hands the pieces to the
    header parsers, the text that reaches `BasicHeader::parse` comes from block 1, `ApplicationHeader::parse` from
    block 2, `UserHeader::parse` from block 3, `Trailer::parse` from block 5 and `parse_from_block4` from block 4
    (traced through `let`, `unwrap_or_default`, `map(|b| ..)`, `as_deref`, `if let Some(b) = ..`)."""
    r = rep.rule("H5", "each header parser is fed from its own block: in every function that calls extract_block and "
                       "a header / block-4 parser, the argument of the parser traces back to extract_block with the "
                       "index of that block (1 basic, 2 application, 3 user, 4 text, 5 trailer)", floor=8)
    for b in F.bodies:
        if "body" not in b or b.get("exp") or b["kind"] not in ("Fn", "AssocFn"):
            continue
        src = {}      # local id -> block index
        body = b["body"]

        def index_of(e, depth=0):
            """block index the value of e was extracted with, or None"""
            if depth > 6 or not isinstance(e, dict):
                return None
            for x in walk(e):
                if x.get("k") in ("call", "mcall") and callee(x).endswith("::extract_block"):
                    a = x.get("args") or []
                    v = lit_val(peel(a[-1])) if a else None
                    return v if isinstance(v, int) else None
            ids = [x["id"] for x in walk(e) if x.get("k") == "local" and x.get("id") in src]
            return src[ids[0]] if ids else None

        if not any(x.get("k") in ("call", "mcall") and callee(x).endswith("::extract_block") for x in walk(body)):
            continue
        for _ in range(3):
            for n in walk(body):
                if n.get("k") in ("let", "letx") and n.get("init") is not None:
                    v = index_of(n["init"])
                    if v is not None:
                        for q in _pat_binds(n.get("pat")):
                            src.setdefault(q["id"], v)
                if n.get("k") == "mcall" and n.get("m") in ("map", "and_then", "is_some_and", "map_or") and n.get("args"):
                    v = index_of(n.get("recv"))
                    cl = n["args"][-1]
                    if v is not None and isinstance(cl, dict) and cl.get("k") == "closure":
                        for p_ in cl.get("params") or []:
                            for q in _pat_binds(p_):
                                src.setdefault(q["id"], v)
        for n in walk(body):
            if n.get("k") not in ("call", "mcall"):
                continue
            f = callee(n)
            want = None
            m = re.search(r"headers::(BasicHeader|ApplicationHeader|UserHeader|Trailer)::parse$", f)
            if m:
                want = BLOCK_OF[m.group(1)]
            elif f.endswith("::parse_from_block4"):
                want = 4
            if want is None:
                continue
            args = list(n.get("args") or [])
            got = index_of(args[0]) if args else None
            if got is None:
                continue
            r["instances"] += 1
            if got != want:
                rep.add(Finding("H5", b["path"], "block%d-from-%d" % (want, got),
                                "%s hands the text of block %d to %s, which parses block %d: that part of the message "
                                "is read from the wrong block (lost, or replaced by another block's content)"
                                % (b["path"], got, f.rsplit("::", 2)[-2] + "::" + f.rsplit("::", 1)[-1], want),
                                b["file"], n.get("ln")))
    return r


def _pat_binds(p):
    if not isinstance(p, dict):
        return
    if p.get("k") == "bind":
        yield p
    for q in p.get("pats") or []:
        yield from _pat_binds(q)
    if p.get("pat"):
        yield from _pat_binds(p["pat"])
