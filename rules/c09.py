"""C09 — mandatory structure is enforced and the error names the culprit."""
from .common import Report
from . import accept
from . import grules, roundtrip, dispatch

LEVEL = "other"
EXPLANATION = ("Decided structurally for all 30 types: a non-Option model field is produced by a mandatory parse "
               "step whose tag literal is the field's tag, so absence yields MissingRequiredField{tag, type} (G6 + "
               "the MessageParser::new type literal = message_type(), D1); a mandatory step cannot be satisfied by "
               "a later occurrence (G2); a content error is wrapped as InvalidFieldFormat carrying tag and content "
               "(EP, dataflow on the six constructor sites) and is not discarded (G3); documented minimum "
               "occurrences are enforced (MO). Which error wins when several apply is not decided.")
ASSUMPTIONS = ["rustc's definite-initialisation: every non-Option field of the returned struct has a value on "
               "every Ok path"]


def run(F, tier):
    rep = Report("C09")
    tms, ft = grules.models(F)
    grules.g2(rep, F)
    grules.g3(rep, tms, F)
    grules.g4_g5_g6(rep, tms)
    rep.findings = [f for f in rep.findings if f.rule not in ("G4", "G5")]
    rep.rules.pop("G4", None); rep.rules.pop("G5", None)
    roundtrip.error_payload(rep, F)
    roundtrip.min_occurrence(rep, tms)
    r, tabs, ids = dispatch.d1(rep, F)
    # only the literal part of D1 concerns C09
    rep.findings = [f for f in rep.findings if not (f.rule == "D1" and not f.instance.startswith(("parser-new", "message_type")))]
    rep.sample({"types_with_minimum_occurrence_check": rep.rules["MO"].get("types_with_minimum")})
    accept.u6(rep, F, "parser")
    # what the extraction primitives hand to the field parsers (and hence what an error's `value` carries)
    accept.u7(rep, F, "parser")
    accept.u8(rep, F)
    # a parser that stops before the end of the block accepts a message whose later mandatory fields are damaged:
    # the end-of-input check is part of enforcing the structure (shared with C01)
    grules.g1(rep, tms)
    # the order in which the steps are taken is part of the structure that is enforced: a mandatory step taken
    # before an optional one that precedes it in the documented layout skips over that field unseen
    grules.g11(rep, tms)
    grules.g12(rep, tms)
    return rep
