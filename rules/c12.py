"""C12 — message-type dispatch is consistent across every entry point."""
from .common import Report
from . import dispatch, valid

LEVEL = "translation_validation"
EXPLANATION = ("Every hand-maintained 30-way dispatch table of the crate (auto parser, wrapper enum "
               "message_type/validate/accessors, plugin parse, publish, validate) is extracted from the resolved "
               "program and compared cell by cell with the 30 impl SwiftMessageBody: key literal, enum variant, "
               "generic arguments, callee and receiver types of each arm must name one type; tables must be "
               "bijections; the typed parser must reject a mismatching announced type before parsing block 4; "
               "every consumer of a whole-message parse records an error on every path through its Err arm.")
ASSUMPTIONS = ["rustc name resolution and type inference (generic arguments of each arm are the resolved ones)",
               "the dataflow-rs engine around the plugin functions is outside the repository"]


def run(F, tier):
    rep = Report("C12")
    r, tabs, ids = dispatch.d1(rep, F)
    dispatch.wrapper_enum(rep, F, ids)
    dispatch.t03(rep, F)
    dispatch.d2(rep, F)
    # the typed API, the wrapper enum and the plugin must give one verdict for one message: the adapters around
    # validate_network_rules keep every error and derive validity from that list only
    valid.s3(rep, F)
    # the announced type is what block 2 says: which search primitive locates a block is part of the dispatch
    from . import accept
    accept.u6(rep, F, "blocks")
    rep.programs = len(tabs) + len(ids)
    rep.cells = sum(len(t.arms) for t in tabs)
    for t in tabs[:6]:
        rep.sample({"table_in": t.fn["path"], "kind": t.kind, "arms": len(t.arms),
                    "first_arm": {"keys": sorted(t.arms[0][0]),
                                  "evidence": {k: [s for s, _ in v][:4] for k, v in t.arms[0][2].items()}}})
    return rep
