"""K-rules: field-map tokeniser, consumption tracker, sequence splitting (legacy API)."""
import re
from .common import Finding
from .facts import walk, is_call, lit_val, peel, callee
from . import grammar as G


def k1(rep, F):
    r = rep.rule("K1", "stamp monotonicity: the ordering stamp pushed by parse_block4_fields is built from the "
                       "per-field counter without mask, modulo, shift-right or narrowing cast applied to it",
                 floor=1)
    b = F.body_by_path.get("parser::generated::parse_block4_fields")
    if b is None:
        rep.fail_closed("K1: parser::generated::parse_block4_fields not found")
        return r
    body = b["body"]
    # the push of (value, stamp)
    pushes = []
    for n in walk(body):
        if n.get("k") == "mcall" and n.get("m") == "push" and "usize)" in (n.get("rt") or ""):
            a = (n.get("args") or [None])[0]
            if isinstance(a, dict) and a.get("k") == "tup" and len(a["es"]) == 2:
                pushes.append((n, a["es"][1]))
    if not pushes:
        rep.fail_closed("K1: no push of a (value, stamp) pair found in parse_block4_fields")
        return r
    # counters: locals incremented by `+= 1`
    counters = {}
    for n in walk(body):
        if n.get("k") == "assignop" and n.get("op") == "+=" and lit_val(n.get("r")) == 1:
            l = peel(n["l"])
            if isinstance(l, dict) and l.get("k") == "local":
                counters[l["id"]] = l["name"]
    lets = {}
    for n in walk(body):
        if n.get("k") == "let" and n["pat"].get("k") == "bind" and n.get("init") is not None:
            lets[n["pat"]["id"]] = n["init"]

    def expand(e, depth=0):
        e = peel(e)
        if isinstance(e, dict) and e.get("k") == "local" and e["id"] in lets and e["id"] not in counters and depth < 4:
            return expand(lets[e["id"]], depth + 1)
        return e

    for push, stamp in pushes:
        r["instances"] += 1
        r["analysed"] += 1
        ex = expand(stamp)
        used = [x for x in walk(ex) if x.get("k") == "local" and x.get("id") in counters]
        if not used:
            rep.add(Finding("K1", b["path"], "stamp:no-counter",
                            "the stamp pushed with each field does not depend on a per-field counter",
                            b["file"], push.get("ln")))
            continue
        # find lossy operators whose operand contains a counter
        def lossy(n):
            out = []
            if not isinstance(n, dict):
                return out
            k = n.get("k")
            if k == "bin" and n.get("op") in ("&", "%", ">>"):
                if any(x.get("k") == "local" and x.get("id") in counters for x in walk(n["l"])):
                    out.append((n.get("op"), n))
            if k == "cast" and re.search(r"\b(u8|u16|u32|i8|i16|i32)\b", n.get("t") or "") and \
                    any(x.get("k") == "local" and x.get("id") in counters for x in walk(n["e"])):
                out.append(("as " + n.get("t"), n))
            if k == "mcall" and n.get("m", "").startswith(("wrapping_", "rem_euclid")):
                out.append((n["m"], n))
            for key, v in n.items():
                if isinstance(v, dict):
                    out += lossy(v)
                elif isinstance(v, list):
                    for x in v:
                        out += lossy(x)
            return out
        for op, node in lossy(ex):
            rv = lit_val(node.get("r")) if node.get("k") == "bin" else None
            cname = "/".join(sorted({x["name"] for x in walk(node) if x.get("k") == "local" and x.get("id") in counters}))
            rep.add(Finding("K1", b["path"], "stamp:%s:%s" % (cname, op + (str(rv) if rv is not None else "")),
                            "the position stamp applies `%s%s` to the counter %s: stamps repeat / stop increasing "
                            "after that many fields, so consumption order and sequence splitting reorder fields"
                            % (op, (" " + hex(rv)) if isinstance(rv, int) else "", cname), b["file"], node.get("ln")))
    return r


REVIEWED_KEEP = ["11", "13", "21", "23", "25", "26", "28", "32", "33", "34", "37", "50", "51", "52", "53", "54", "55", "56",
                 "57", "58", "59", "60", "62", "71", "77", "90"]


def k2(rep, F, tms):
    r = rep.rule("K2", "normalisation is injective on used tags: applying normalize_field_tag's keep-list "
                       "(read from its match arms) to the tag literals of each message type, no two distinct tags "
                       "of one type collapse to one key", floor=30)
    b = F.body_by_path.get("parser::generated::normalize_field_tag")
    if b is None:
        rep.fail_closed("K2: normalize_field_tag not found")
        return r
    keep = None
    for n in walk(b["body"]):
        if n.get("k") == "match":
            lits = set()
            wild = False
            for a in n["arms"]:
                for p in ([a["pat"]] if a["pat"].get("k") != "por" else a["pat"]["pats"]):
                    if p.get("k") == "plit":
                        lits.add(p["v"])
                    elif p.get("k") in ("_", "bind"):
                        wild = True
            if lits and wild:
                keep = lits
    if keep is None:
        # the keep-list as a constant table tested with contains()
        for n in walk(b["body"]):
            if n.get("k") == "mcall" and n.get("m") == "contains":
                rv = peel(n.get("recv"))
                tbl = None
                if isinstance(rv, dict) and rv.get("k") == "array":
                    tbl = rv
                elif isinstance(rv, dict) and rv.get("k") == "def" and rv.get("dk") in ("const", "assoc_const", "static"):
                    cb = F.body_by_path.get(rv.get("def"))
                    x = cb.get("body") if cb else None
                    while isinstance(x, dict) and x.get("k") in ("block", "ref") and (x.get("k") == "ref" or not x.get("stmts")):
                        x = x.get("e") if x.get("k") == "ref" else x.get("expr")
                    if isinstance(x, dict) and x.get("k") == "array":
                        tbl = x
                if tbl is not None:
                    vals = [lit_val(peel(e)) for e in tbl.get("es") or []]
                    if vals and all(isinstance(v, str) for v in vals):
                        keep = set(vals)
    if keep is None:
        # written in a way the rule does not read: nothing can be said; the floor is not applied
        rep.notes.append("K2: normalize_field_tag has no literal keep-list the rule can read: undecided")
        r["floor"] = 0
        return r
    r["keep_list"] = sorted(keep)
    # the list itself is a reviewed table: the field numbers whose option letter the tokeniser keeps
    if sorted(keep) != REVIEWED_KEEP:
        rep.add(Finding("K2", b["path"], "keep-list:%s" % ",".join(sorted(set(keep) ^ set(REVIEWED_KEEP))),
                        "the tokeniser's list of field numbers that keep their option letter differs from the "
                        "reviewed list in %s: tags of those numbers are stored under another key than before"
                        % sorted(set(keep) ^ set(REVIEWED_KEEP)), b["file"], b["line"]))

    def norm(t):
        m = re.match(r"^(\d+)(.*)$", t)
        if not m or not m.group(2):
            return t
        if m.group(1) in keep:
            return t
        if m.group(2).isupper() and m.group(2).isalpha():
            return m.group(1)
        return t

    for tm in tms:
        if tm.g is None:
            continue
        r["instances"] += 1
        tags = set()
        for s in tm.g.sites:
            if s.variant:
                for t in tm.ft.emitted(s.ty):
                    tags.add(t)
            elif s.tag:
                tags.add(s.tag)
        seen = {}
        for t in sorted(tags):
            k = norm(t)
            if k in seen and seen[k] != t:
                rep.add(Finding("K2", b["path"], "%s:%s=%s" % (tm.name, seen[k], t),
                                "in %s the distinct tags %s and %s are stored under the same key %s by the "
                                "tokeniser: the option letter is lost where the message distinguishes the fields"
                                % (tm.name, seen[k], t, k), b["file"], b["line"]))
            seen.setdefault(k, t)
    return r


def k3(rep, F):
    r = rep.rule("K3", "the consumption tracker never un-consumes: nothing removes from consumed_indices; "
                       "mark_consumed only inserts; get_next_available takes &self", floor=3)
    found = 0
    for b in F.bodies:
        if "body" not in b or b.get("exp"):
            continue
        for n in walk(b["body"]):
            if n.get("k") == "mcall" and n.get("m") in ("remove", "clear", "retain", "drain", "take", "pop",
                                                        "truncate", "remove_entry", "swap_remove"):
                touches = any(x.get("k") == "field" and x.get("name") == "consumed_indices" for x in walk(n["recv"]))
                derived = "HashSet<usize>" in (n.get("rt") or "") and \
                    (b.get("impl_self") or "").endswith("FieldConsumptionTracker")
                if touches or derived:
                    rep.add(Finding("K3", b["path"], "unconsume:%s" % n["m"],
                                    "%s removes entries from the consumed set: an occurrence can be handed out "
                                    "twice" % b["path"], b["file"], n.get("ln")))
    # HashMap::insert(tag, set) on the consumed map replaces whatever was recorded for the tag
    for b in F.bodies:
        if "body" not in b or b.get("exp"):
            continue
        for n in walk(b["body"]):
            if n.get("k") == "mcall" and n.get("m") == "insert" and \
                    (n.get("f") or "").startswith("std::collections::HashMap") and \
                    any(x.get("k") == "field" and x.get("name") == "consumed_indices" for x in walk(n["recv"])):
                rep.add(Finding("K3", b["path"], "overwrite:insert",
                                "%s stores a new set for a tag with HashMap::insert: the positions recorded before "
                                "are forgotten and handed out again" % b["path"], b["file"], n.get("ln")))
    for name in ("mark_consumed", "get_next_available", "new"):
        b = F.body_by_path.get("parser::swift_parser::FieldConsumptionTracker::" + name)
        if b is None:
            rep.fail_closed("K3: FieldConsumptionTracker::%s not found" % name)
            continue
        r["instances"] += 1
        found += 1
        if name == "get_next_available" and (b.get("inputs") or [""])[0].startswith("&mut"):
            rep.add(Finding("K3", b["path"], "mut-lookup", "get_next_available mutates the tracker",
                            b["file"], b["line"]))
        if name == "mark_consumed":
            ins = [n for n in walk(b["body"]) if n.get("k") == "mcall" and n.get("m") == "insert"]
            if not ins:
                rep.add(Finding("K3", b["path"], "no-insert", "mark_consumed does not insert the index",
                                b["file"], b["line"]))
            # the inserted value is the `index` parameter
            ps = b.get("params") or []
            idx = ps[2]["id"] if len(ps) > 2 and ps[2].get("k") == "bind" else None
            for n in ins:
                a = n.get("args") or []
                v = peel(a[-1]) if a else None
                if re.match(r"^&mut std::collections::HashSet<usize", n.get("rt") or "") and not (isinstance(v, dict) and v.get("k") == "local" and v.get("id") == idx):
                    rep.add(Finding("K3", b["path"], "insert-other",
                                    "mark_consumed inserts something other than the given index", b["file"], n.get("ln")))
        if name == "get_next_available":
            # the filter must test membership of the element's own stamp, negated
            # (that the consumed set is consulted at all is checked here; with which polarity, and that the first
            # free occurrence is taken, is part of the accept condition compared by U6/tokeniser)
            ok = False
            for n in walk(b["body"]):
                if n.get("k") == "mcall" and n.get("m") == "contains" and "HashSet" in (n.get("rt") or n.get("f") or ""):
                    ok = True
                if n.get("k") == "un" and n.get("op") == "!" and isinstance(n.get("e"), dict) and \
                        n["e"].get("k") == "mcall" and n["e"].get("m") == "contains":
                    ok = True
            if not ok:
                rep.add(Finding("K3", b["path"], "filter", "get_next_available does not skip consumed positions "
                                "by `!set.contains(pos)`", b["file"], b["line"]))
            first_ = any(n.get("k") == "mcall" and n.get("m") in ("find", "find_map") for n in walk(b["body"])) or \
                any(n.get("k") == "for" and any(x.get("k") == "ret" for x in walk(n["body"])) for n in walk(b["body"]))
            if not first_:
                rep.add(Finding("K3", b["path"], "first", "get_next_available does not take the first unconsumed "
                                "occurrence in order", b["file"], b["line"]))
    return r


def _push_paths(n, targets):
    """set of (pushes, leaves) for all paths through n; leaves = path ended by continue/break/return"""
    if n is None:
        return {(0, False)}
    if isinstance(n, list):
        cur = {(0, False)}
        for x in n:
            nxt = set()
            sub = _push_paths(x, targets)
            for c, done in cur:
                if done:
                    nxt.add((c, True))
                else:
                    for c2, d2 in sub:
                        nxt.add((c + c2, d2))
            cur = nxt
        return cur
    if not isinstance(n, dict):
        return {(0, False)}
    k = n.get("k")
    if k == "block":
        seq = list(n.get("stmts") or [])
        if n.get("expr") is not None:
            seq.append(n["expr"])
        return _push_paths(seq, targets)
    if k == "if":
        out = set()
        c = _push_paths(n["cond"], targets)
        t = _push_paths(n["then"], targets)
        e = _push_paths(n.get("else"), targets) if n.get("else") is not None else {(0, False)}
        for c0, _ in c:
            for x, d in t | e:
                out.add((c0 + x, d))
        return out
    if k == "match":
        out = set()
        for a in n.get("arms") or []:
            out |= _push_paths(a["body"], targets)
        return out
    if k in ("continue", "break", "ret"):
        return {(0, True)}
    if k == "mcall" and n.get("m") == "push":
        root = n["recv"]
        ids = {x["id"] for x in walk(root) if x.get("k") == "local"}
        if ids & targets:
            return {(1, False)}
    if k == "call" and not n.get("ctor"):
        # a helper that is handed `&mut <sequence map>` files the field into that map
        for a_ in n.get("args") or []:
            if isinstance(a_, dict) and a_.get("k") == "ref" and a_.get("mut"):
                x_ = peel(a_.get("e"))
                if isinstance(x_, dict) and x_.get("k") == "local" and x_.get("id") in targets:
                    return {(1, False)}
    if k in ("for", "while", "loop", "closure"):
        return {(0, False)}
    cur = {(0, False)}
    for key in ("recv", "args", "e", "l", "r", "init"):
        v = n.get(key)
        if v is not None:
            sub = _push_paths(v if isinstance(v, dict) else list(v), targets)
            cur = {(c + c2, d or d2) for c, d in cur for c2, d2 in sub}
    return cur


def k4(rep, F):
    r = rep.rule("K4", "exactly one sequence per field: every path through the body of the distribution loop "
                       "of split_into_sequences pushes the field into exactly one of seq_a / seq_b / seq_c",
                 floor=1)
    b = F.body_by_path.get("parser::sequence_parser::split_into_sequences")
    if b is None:
        rep.fail_closed("K4: split_into_sequences not found")
        return r
    body = b["body"]
    maps = {}
    # the sequence maps are the locals that fill the slots of the returned ParsedSequences
    slots = {}
    for n in walk(body):
        if n.get("k") == "struct" and (n.get("path") or n.get("t") or "").endswith("ParsedSequences"):
            for f in n["fields"]:
                v = peel(f["e"])
                if isinstance(v, dict) and v.get("k") == "local":
                    slots[f["name"]] = v["id"]
                    maps[v["id"]] = v.get("oname") or v.get("name")
    if len(maps) < 3:
        rep.fail_closed("K4: the three sequence maps were not found (%s)" % sorted(maps.values()))
        return r
    # a local that is `&mut <one of the maps>` on every path of its initialiser stands for exactly one map
    def _leaves(e):
        while isinstance(e, dict) and e.get("k") == "block":
            if e.get("expr") is None:
                return [None]
            e = e["expr"]
        if isinstance(e, dict) and e.get("k") == "if":
            return _leaves(e["then"]) + (_leaves(e["else"]) if e.get("else") is not None else [None])
        if isinstance(e, dict) and e.get("k") == "match":
            out_ = []
            for a_ in e.get("arms") or []:
                out_ += _leaves(a_["body"])
            return out_
        return [e]
    targets_all = set(maps)
    for n in walk(body):
        if n.get("k") == "let" and n.get("init") is not None and (n.get("pat") or {}).get("k") == "bind":
            lv = _leaves(n["init"])
            if lv and all(isinstance(x, dict) and x.get("k") == "ref" and x.get("mut") and
                          isinstance(peel(x.get("e")), dict) and peel(x["e"]).get("k") == "local" and
                          peel(x["e"]).get("id") in maps for x in lv):
                targets_all.add(n["pat"]["id"])
    loops = []
    for n in walk(body):
        if n.get("k") == "for":
            if any(x.get("k") == "mcall" and x.get("m") == "push" and
                   {y["id"] for y in walk(x["recv"]) if y.get("k") == "local"} & targets_all for x in walk(n["body"])) or \
                    any(x.get("k") == "call" and any(isinstance(a_, dict) and a_.get("k") == "ref" and a_.get("mut")
                                                       and isinstance(peel(a_.get("e")), dict)
                                                       and peel(a_["e"]).get("id") in maps
                                                       for a_ in x.get("args") or []) for x in walk(n["body"])):
                loops.append(n)
    if not loops:
        rep.fail_closed("K4: distribution loop not found")
        return r
    # struct returned uses each map once
    for lp in loops:
        r["instances"] += 1
        r["analysed"] += 1
        paths = _push_paths(lp["body"], targets_all)
        r["paths"] = sorted({c for c, _ in paths})
        for c, _ in sorted(paths):
            if c != 1:
                rep.add(Finding("K4", b["path"], "paths:%d" % c,
                                "a path through the distribution loop pushes the field into %d sequences "
                                "(must be exactly one): fields are %s" % (c, "lost" if c == 0 else "duplicated"),
                                b["file"], lp.get("ln")))
    # the result struct carries each map in its own slot
    for n in walk(body):
        if n.get("k") == "struct" and (n.get("path") or n.get("t") or "").endswith("ParsedSequences"):
            r["instances"] += 1
            for f in n["fields"]:
                v = peel(f["e"])
                nm = (v.get("oname") or v.get("name")) if isinstance(v, dict) else None
                want = {"sequence_a": "seq_a", "sequence_b": "seq_b", "sequence_c": "seq_c"}.get(f["name"])
                # the naming convention of the maps is the only witness of which is which; it is checked when
                # the convention is in use and skipped otherwise
                if want and nm and nm.startswith("seq_") and nm != want:
                    rep.add(Finding("K4", b["path"], "result:%s" % f["name"],
                                    "ParsedSequences.%s is filled from %s" % (f["name"], nm), b["file"], n.get("ln")))
    # ordering: fields are sorted by stamp before distribution
    if not any(x.get("k") == "mcall" and x.get("m") in ("sort_by_key", "sort_by", "sort_unstable_by_key")
               for x in walk(body)):
        rep.add(Finding("K4", b["path"], "unsorted", "fields are not ordered by stamp before they are split",
                        b["file"], b["line"]))
    return r


# ---------------------------------------------------------------------------
# K5: the consumed set is always addressed with the key of the entry whose values are in hand

ENTRY_TY = re.compile(r"(?:std::string::)?String, &?(?:std::vec::)?Vec<\((?:std::string::)?String, usize\)>")
TRIPLE_TY = re.compile(r"\((?:std::string::)?String, (?:std::string::)?String, usize\)")


def _pat_binds(p, out, path=()):
    if not isinstance(p, dict):
        return
    if p.get("k") == "bind":
        out.append((p["id"], path, p))
        if p.get("sub"):
            _pat_binds(p["sub"], out, path)
    for i, q in enumerate(p.get("pats") or []):
        _pat_binds(q, out, path + ((p.get("k"), i),))
    if p.get("pat"):
        _pat_binds(p["pat"], out, path)
    for f in p.get("fields") or []:
        _pat_binds(f.get("pat") if isinstance(f, dict) and "pat" in f else f, out, path)


def _chain_root(n):
    n = peel(n)
    while isinstance(n, dict) and n.get("k") == "mcall":
        n = peel(n.get("recv"))
    return n


class _Binds:
    """where every local of one function body was bound: pattern, tuple it sits in, and the source expression"""

    def __init__(self, body):
        self.rec = {}
        self._scan(body)

    def _add(self, pat, ctx):
        bs = []
        _pat_binds(pat, bs)
        tup = None
        # innermost tuple pattern
        def find_tup(p):
            nonlocal tup
            if not isinstance(p, dict):
                return
            if p.get("k") == "ptup":
                tup = p
            for q in p.get("pats") or []:
                find_tup(q)
            if p.get("pat"):
                find_tup(p["pat"])
        find_tup(pat)
        for bid, path, node in bs:
            self.rec[bid] = {"pat": pat, "tup": tup, "ctx": ctx, "node": node}

    def _scan(self, n):
        for x in walk(n):
            k = x.get("k")
            if k == "for":
                self._add(x.get("pat"), {"kind": "for", "src": x.get("iter"), "ty": x.get("it") or ""})
            elif k in ("letx", "let") and x.get("pat") is not None:
                self._add(x["pat"], {"kind": "let", "src": x.get("init"), "ty": x.get("ty") or ""})
            elif k == "mcall":
                for a in x.get("args") or []:
                    if isinstance(a, dict) and a.get("k") == "closure":
                        ty = " ".join([x.get("rt") or ""] + list(x.get("ga") or [])[:1])
                        for p in a.get("params") or []:
                            self._add(p, {"kind": "closure", "src": x.get("recv"), "ty": ty, "m": x.get("m")})

    def key_for(self, lid, depth=0):
        """the key (('local', id) | ('place', text) | ('none', why)) of the map entry local `lid` belongs to"""
        r = self.rec.get(lid)
        if r is None or depth > 4:
            return ("none", "unbound")
        tup, ctx = r["tup"], r["ctx"]
        src = ctx.get("src")
        if tup is not None:
            pats = tup.get("pats") or []
            ty = ctx.get("ty") or ""
            is_entry = len(pats) == 2 and ENTRY_TY.search(ty) and not _is_valpos(ty)
            is_triple = len(pats) == 3
            if is_entry or is_triple:
                first = pats[0]
                while isinstance(first, dict) and first.get("k") == "pref":
                    first = first.get("pat")
                if isinstance(first, dict) and first.get("k") == "bind":
                    if first["id"] == lid:
                        return ("self", lid)
                    return ("local", first["id"])
                return ("none", "the entry's key is discarded by the pattern")
            # (value, pos) element of a values list: the key is that of the list
            if isinstance(src, dict) and is_call(src, "get_next_available"):
                a = src.get("args") or []
                return _keyexpr(a[0]) if a else ("none", "?")
            root = _chain_root(src)
            if isinstance(root, dict) and root.get("k") == "local":
                return self.key_for(root["id"], depth + 1)
            return ("none", "values of unknown origin")
        # plain binding: `Some(values) = fields.get(K)`
        if isinstance(src, dict) and src.get("k") == "mcall" and src.get("m") == "get":
            a = src.get("args") or []
            return _keyexpr(a[0]) if a else ("none", "?")
        root = _chain_root(src)
        if isinstance(root, dict) and root.get("k") == "local" and root["id"] != lid:
            return self.key_for(root["id"], depth + 1)
        return ("none", "unknown origin")


def _is_valpos(ty):
    """iterator/element type whose items are (String, usize) pairs themselves (not entries of the map)"""
    t = ty.strip()
    return bool(re.search(r"Iter<'_, \((?:std::string::)?String, usize\)>", t)) and not ENTRY_TY.search(
        re.sub(r"Iter<'_, \((?:std::string::)?String, usize\)>", "", t))


def _keyexpr(n):
    n = peel(n)
    if isinstance(n, dict) and n.get("k") == "local":
        return ("local", n["id"])
    from .facts import place_str
    return ("place", place_str(n) or "?")


def k5(rep, F):
    r = rep.rule("K5", "key agreement of the consumption tracker: every consumed_indices.get(K), "
                       "get_next_available(K, values) and mark_consumed(K, pos) addresses the consumed set with the "
                       "key of the very map entry its values / position come from (bound in the same entry "
                       "pattern, or the argument of the fields.get that produced them)", floor=8)
    for b in F.bodies:
        if "body" not in b or b.get("exp") or not (b.get("file") or "").endswith("swift_parser.rs"):
            continue
        if b.get("impl_self", "").endswith("FieldConsumptionTracker"):
            continue
        uses = []
        parents = {}

        def index(n, par):
            if isinstance(n, dict):
                if "k" in n:
                    parents[id(n)] = par
                    par = n
                for k, v in n.items():
                    if k in ("pat", "pats", "params"):
                        continue
                    if isinstance(v, (dict, list)):
                        index(v, par)
            elif isinstance(n, list):
                for x in n:
                    index(x, par)
        index(b["body"], None)
        for n in walk(b["body"]):
            if n.get("k") != "mcall":
                continue
            if n.get("m") == "get" and isinstance(peel(n.get("recv")), dict) \
                    and peel(n["recv"]).get("k") == "field" and peel(n["recv"]).get("name") == "consumed_indices":
                uses.append(("get", n))
            elif is_call(n, "FieldConsumptionTracker::get_next_available"):
                uses.append(("next", n))
            elif is_call(n, "FieldConsumptionTracker::mark_consumed"):
                uses.append(("mark", n))
        if not uses:
            continue
        r["analysed"] += 1
        B = _Binds(b["body"])
        for kind, n in uses:
            r["instances"] += 1
            a = n.get("args") or []
            K = _keyexpr(a[0]) if a else ("none", "?")
            want = None
            if kind in ("next", "mark") and len(a) >= 2:
                d = peel(a[1])
                if isinstance(d, dict) and d.get("k") == "local":
                    want = B.key_for(d["id"])
            if kind == "get":
                # position tested against the set in the chained closure(s)
                top = n
                while parents.get(id(top)) is not None and parents[id(top)].get("k") == "mcall" \
                        and peel(parents[id(top)].get("recv")) is top:
                    top = parents[id(top)]
                pos = None
                for x in walk(top):
                    if x.get("k") == "mcall" and x.get("m") == "contains":
                        for y in x.get("args") or []:
                            y = peel(y)
                            if isinstance(y, dict) and y.get("k") == "local":
                                pos = y["id"]
                if pos is None:
                    # hoisted lookup: `let set = tracker.consumed_indices.get(K)`, tested later
                    par = parents.get(id(top))
                    if par is not None and par.get("k") in ("let", "letx"):
                        bs = []
                        _pat_binds(par.get("pat"), bs)
                        held = {bid for bid, _, _ in bs}
                        for x in walk(b["body"]):
                            if x.get("k") == "mcall" and x.get("m") == "contains":
                                t = x
                                while parents.get(id(t)) is not None and parents[id(t)].get("k") != "mcall":
                                    t = parents[id(t)]
                                # climb to the chain that owns the closure holding this contains()
                                q = parents.get(id(x))
                                owner = None
                                while q is not None:
                                    if q.get("k") == "mcall":
                                        rt_ = _chain_root(q)
                                        if isinstance(rt_, dict) and rt_.get("k") == "local" and rt_["id"] in held:
                                            owner = q
                                            break
                                    q = parents.get(id(q))
                                if owner is not None:
                                    for y in x.get("args") or []:
                                        y = peel(y)
                                        if isinstance(y, dict) and y.get("k") == "local":
                                            pos = y["id"]
                if pos is not None:
                    want = B.key_for(pos)
                else:
                    # nearest enclosing closure/for whose pattern is a map entry
                    p = parents.get(id(n))
                    while p is not None and want is None:
                        if p.get("k") == "mcall":
                            for c in p.get("args") or []:
                                if isinstance(c, dict) and c.get("k") == "closure" and any(x is n for x in walk(c)):
                                    bs = []
                                    for pp in c.get("params") or []:
                                        _pat_binds(pp, bs)
                                    for bid, _, _ in bs:
                                        kf = B.key_for(bid)
                                        if kf[0] in ("self", "local"):
                                            want = ("local", kf[1])
                                    if want is None and bs == [] and c.get("params"):
                                        want = ("none", "the entry's key is discarded by the pattern")
                        elif p.get("k") == "for":
                            bs = []
                            _pat_binds(p.get("pat"), bs)
                            for bid, _, _ in bs:
                                kf = B.key_for(bid)
                                if kf[0] in ("self", "local"):
                                    want = ("local", kf[1])
                        p = parents.get(id(p))
            if want is None:
                rep.add(Finding("K5", b["path"], "%s:unpaired" % kind,
                                "%s at line %s: cannot pair the key with the entry its data comes from"
                                % (n.get("m"), n.get("ln")), b["file"], n.get("ln")))
                continue
            if want[0] == "self":
                want = ("local", want[1])
            if want != K:
                def show(t):
                    if t[0] == "local":
                        rr = B.rec.get(t[1])
                        return "`%s`" % (rr["node"]["name"] if rr else _param_name(b, t[1]))
                    return "`%s`" % t[1] if t[0] == "place" else t[1]
                rep.add(Finding("K5", b["path"], "%s:key" % kind,
                                "%s at line %s addresses the consumed set with %s but its values/position belong "
                                "to the entry keyed %s" % (n.get("m"), n.get("ln"), show(K), show(want)),
                                b["file"], n.get("ln")))
    return r


ORDER_CALLS = ("sort_by_key", "sort_by", "sort_unstable_by_key", "sort_unstable_by", "sort_by_cached_key",
               "min_by_key", "min_by")
TRACKER_TY = "parser::swift_parser::FieldConsumptionTracker"


def _touches_tracker(n, lets, depth=0):
    """the expression reads the consumed set: the `consumed_indices` field, a method of the tracker, or a local whose
    initialiser does"""
    for x in walk(n):
        if x.get("k") == "field" and x.get("name") == "consumed_indices":
            return True
        if x.get("k") in ("mcall", "call") and TRACKER_TY + "::" in (x.get("f") or ""):
            return True
        if x.get("k") == "local" and depth < 3 and x.get("id") in lets and lets[x["id"]] is not n and \
                _touches_tracker(lets[x["id"]], lets, depth + 1):
            return True
    return False


def k6(rep, F):
    r = rep.rule("K6", "option-letter candidates of one base tag are tried in the order of their first *unconsumed* "
                       "occurrence: the key of every ordering call over the (tag, occurrences) candidates in the "
                       "sequential lookup consults the consumed set (or orders occurrences already filtered by it)",
                 floor=1)
    b = F.body_by_path.get("parser::swift_parser::find_field_with_variant_sequential_constrained")
    if b is None:
        rep.fail_closed("K6: parser::swift_parser::find_field_with_variant_sequential_constrained not found")
        return r
    lets = {}
    for n in walk(b["body"]):
        if n.get("k") == "let" and isinstance(n.get("pat"), dict) and n["pat"].get("k") == "bind" and n.get("init"):
            lets[n["pat"]["id"]] = n["init"]
    calls = [n for n in walk(b["body"]) if n.get("k") == "mcall" and n.get("m") in ORDER_CALLS and
             "Vec<(std::string::String, usize)>" in " ".join(n.get("ga") or []) + (n.get("rt") or "")]
    if not calls:
        rep.notes.append("K6: no ordering call over the option-letter candidates found in %s: how they are ordered "
                         "is not decided by this rule" % b["path"])
        r["instances"] += 1       # the function itself was examined
        return r
    for n in calls:
        r["instances"] += 1
        clos = [a for a in (n.get("args") or []) if isinstance(a, dict) and a.get("k") == "closure"]
        if not clos:
            rep.notes.append("K6: %s line %s orders the candidates by a named function: undecided" % (b["path"], n.get("ln")))
            continue
        if _touches_tracker(clos[0].get("body"), lets):
            continue
        # occurrences filtered by the consumed set before they are ordered
        recv = peel(n.get("recv")) if n.get("recv") else None
        rid = recv.get("id") if isinstance(recv, dict) and recv.get("k") == "local" else None
        pre = False
        for x in walk(b["body"]):
            if x.get("k") == "mcall" and x.get("m") in ("filter", "retain", "filter_map", "retain_mut") and \
                    (x.get("ln") or 0) < (n.get("ln") or 0) and \
                    any(isinstance(a, dict) and a.get("k") == "closure" and _touches_tracker(a.get("body"), lets)
                        for a in (x.get("args") or [])):
                root = x
                while isinstance(root, dict) and root.get("k") == "mcall":
                    root = root.get("recv")
                root = peel(root) if isinstance(root, dict) else root
                in_init = rid is not None and rid in lets and any(y is x for y in walk(lets[rid]))
                on_recv = isinstance(root, dict) and root.get("k") == "local" and root.get("id") == rid
                if in_init or on_recv:
                    pre = True
        if pre:
            continue
        rep.add(Finding("K6", b["path"], "order-key:%s" % n.get("m"),
                        "%s orders the option-letter candidates (line %s) by a key that never consults the consumed "
                        "set: once an occurrence of one letter is consumed, a later occurrence of that letter is "
                        "still ranked by the consumed one, so interleaved letters of one base tag (52A,52D,52A) are "
                        "handed out out of message order" % (b["path"], n.get("ln")), b["file"], n.get("ln")))
    return r


def _param_name(b, lid):
    for n in walk(b["body"]):
        if n.get("k") == "local" and n.get("id") == lid:
            return n.get("name")
    return "#%s" % lid
