"""C10 — envelope integrity: blocks and headers are extracted and reproduced faithfully."""
from .common import Report
from . import emit
from . import accept
from . import headers, fieldfmt

LEVEL = "other"
EXPLANATION = ("Parser/serialiser sibling comparison for the envelope: the set of block-3 / block-5 tag literals "
               "recognised by parse must be contained in the set written by Display and every assigned component "
               "must be read (H1); stored components of blocks 1 and 2 must be written or derived from written "
               "text, direction dispatch is exactly I/O/error (H3); the fixed-offset header parsers reject "
               "over-long input (U3); to_mt_message assembles blocks 1..5 in order from the corresponding parts "
               "(H2). That block location is independent of characters inside values is a string-algorithm "
               "property of extract_block and is not decided.")
ASSUMPTIONS = ["header tags are the `{XXX:`/`{XXX}` string literals and format pieces of the four functions"]


def run(F, tier):
    rep = Report("C10")
    r = headers.h1(rep, F)
    headers.h3(rep, F)
    r2 = headers.h2(rep, F)
    headers.h4(rep, F)
    headers.h5(rep, F)
    fieldfmt.u3(rep, F, "headers")
    rep.sample({"tags": r.get("tags")})
    rep.sample({"assembly": r2.get("sequence")})
    accept.u6(rep, F, "headers")
    accept.u6(rep, F, "blocks")
    accept.u7(rep, F, "headers")
    emit.e1(rep, F, "headers")
    emit.e1(rep, F, "assembly")
    return rep
