"""C13 — validation entry points are coherent, order-stable and side-effect free."""
from .common import Report
from . import valid

LEVEL = "other"
EXPLANATION = ("Static effect / control-dependence analysis: (S1) in all 30 validate_network_rules and every "
               "callee that receives the flag, stop_on_first_error only guards `return <accumulator>` after a "
               "push, so stop mode yields a non-empty prefix exactly when the full list is non-empty; (S2) the "
               "call-graph closure of validation (MIR call edges, trait calls resolved) takes &self, touches no "
               "interior mutability / clock / random / environment and iterates no hash container; (S3) the "
               "adapters call validate_network_rules(false), keep every error and derive validity as is_empty().")
ASSUMPTIONS = ["MIR call edges with Instance::try_resolve give the callees; unresolved crate-trait calls are "
               "expanded to all impls", "Vec iteration order is deterministic (std)"]


def run(F, tier):
    rep = Report("C13")
    valid.s1(rep, F)
    valid.s2(rep, F)
    valid.s3(rep, F)
    rep.sample({"rule": "S1", "example": "MT103::validate_network_rules: 13 rule groups, each followed by the stop idiom"})
    return rep
