"""C16 — the field-map tokeniser and sequential consumption lose and reorder nothing."""
from .common import Report
from . import accept
from . import tokeniser, grules

LEVEL = "other"
EXPLANATION = ("Structural necessary conditions decided on the resolved program: the ordering stamp is an "
               "unmasked function of the per-field counter (K1); the tag normalisation table, evaluated on every "
               "tag literal the 30 message types use, is collision free (K2); nothing ever removes from the "
               "consumed set and lookup returns the first unconsumed stamp (K3); every path through the "
               "distribution loop of split_into_sequences performs exactly one push (path enumeration, K4); every "
               "lookup, reservation and marking of the consumed set uses the key of the entry in hand (K5); the key by "
               "which option-letter candidates are ordered consults the consumed set (K6). "
               "Exactness of the tokeniser on arbitrary text is a string-algorithm property and is not decided.")
ASSUMPTIONS = ["tag literals of the typed parsers are the tags that occur in messages of each type"]


def run(F, tier):
    rep = Report("C16")
    tms, ft = grules.models(F)
    tokeniser.k1(rep, F)
    tokeniser.k2(rep, F, tms)
    tokeniser.k3(rep, F)
    r = tokeniser.k4(rep, F)
    tokeniser.k5(rep, F)
    tokeniser.k6(rep, F)
    rep.sample({"K4_push_counts_over_paths": r.get("paths")})
    rep.sample({"K2_keep_list": rep.rules.get("K2", {}).get("keep_list")})
    accept.u6(rep, F, "tokeniser")
    # what the splitting / lookup functions deliver: every push, insert, clear, retain and sort on the collections
    # under construction, with the condition it happens under
    accept.u7(rep, F, ("tokeniser", accept.FILTERS["tokeniser"], 4))
    return rep
