"""Loading and indexing of the fact file written by the mtfacts driver, plus generic
utilities over the resolved shape trees. Nothing here decides a property."""
import hashlib
import json
import os
import re

CLOSURE_AT = re.compile(r"\{closure@[^{}\"]*\}")

CHILD_KEYS = ("stmts", "expr", "init", "els", "e", "args", "recv", "l", "r", "cond", "then",
              "else", "body", "arms", "es", "fields", "base", "i", "fe", "iter", "guard", "params")


class Facts:
    def __init__(self, path):
        with open(path) as f:
            text = f.read()
        # closure type names carry their source position; positions are not part of any rule
        text = CLOSURE_AT.sub("{closure}", text)
        raw = json.loads(text)
        del text
        self.raw = raw
        self.adts = {a["path"]: a for a in raw["items"]["adts"]}
        self.adt_by_name = {}
        for a in raw["items"]["adts"]:
            self.adt_by_name.setdefault(a["name"], []).append(a)
        self.impls = raw["items"]["impls"]
        self.traits = raw["items"]["traits"]
        self.bodies = raw["bodies"]
        # scalar constants read as their value: naming a literal (or inlining a named one) changes nothing
        consts = {}
        for b in self.bodies:
            if b.get("kind", "").startswith(("Const", "AssocConst")) and isinstance(b.get("body"), dict):
                v = b["body"]
                while isinstance(v, dict) and v.get("k") == "block" and not v.get("stmts") and v.get("expr"):
                    v = v["expr"]
                if isinstance(v, dict) and v.get("k") == "lit":
                    consts[b["path"]] = v
        self.consts = consts
        for b in self.bodies:
            if "body" in b and not b.get("kind", "").startswith(("Const", "AssocConst")):
                b["body"] = _inline_consts(b["body"], consts)
        for b in self.bodies:
            if "body" in b:
                b["body"] = simplify(b["body"])
                if (b.get("output") or "").startswith(("std::result::Result<", "std::option::Option<")):
                    b["body"] = tail_maps(b["body"], (b.get("output") or "").startswith("std::result::Result<"))
                if not os.environ.get("VERIF_OLDNAMES"):
                    canon_locals(b)
        self.body_by_path = {}
        for b in self.bodies:
            self.body_by_path.setdefault(b["path"], b)
        self.mir = {m["path"]: m for m in raw["mir"]}
        # (self type, fn name) -> [bodies]   (inherent and trait impls)
        self.by_self = {}
        for b in self.bodies:
            if b.get("impl_self") and b["kind"] == "AssocFn":
                self.by_self.setdefault((b["impl_self"], b["name"]), []).append(b)
        self.tree_hash = raw.get("tree_hash")
        from . import decide
        decide.note_externals(self)

    # ---- lookups -------------------------------------------------------
    def fn(self, self_ty, name, trait=None):
        """body of `impl [trait for] self_ty { fn name }`; trait=None -> inherent, trait="*" -> any"""
        for b in self.by_self.get((self_ty, name), []):
            t = b.get("impl_trait")
            if trait == "*" or (trait is None and t is None) or (trait and t and t.endswith(trait)):
                return b
        return None

    def fns_named(self, name):
        return [b for b in self.bodies if b["name"] == name and b["kind"] in ("AssocFn", "Fn")]

    def impls_of(self, trait_suffix):
        return [i for i in self.impls if i.get("trait") and i["trait"].endswith(trait_suffix)]

    def handwritten(self, b):
        return not b.get("exp")


# ---------------------------------------------------------------------------
# tree utilities

def kids(n):
    """direct child nodes (dicts with 'k' or arm/field wrappers) of a node"""
    if isinstance(n, list):
        for x in n:
            if isinstance(x, (dict, list)):
                yield x
        return
    if not isinstance(n, dict):
        return
    for k, v in n.items():
        if k in ("pat", "pats", "sub"):
            # patterns can contain guard exprs only via pguard; handled by walk_pats
            continue
        if isinstance(v, dict):
            yield v
        elif isinstance(v, list):
            for x in v:
                if isinstance(x, dict):
                    yield x


def walk(n):
    """pre-order walk over all expression nodes (dicts having key 'k')"""
    stack = [n]
    while stack:
        x = stack.pop()
        if isinstance(x, dict):
            if "k" in x:
                yield x
            ch = list(kids(x))
            ch.reverse()
            stack.extend(ch)
        elif isinstance(x, list):
            stack.extend(reversed(x))


def is_call(n, *suffixes):
    if not isinstance(n, dict) or n.get("k") not in ("call", "mcall"):
        return False
    f = n.get("f") or ""
    inst = n.get("inst") or ""
    for s in suffixes:
        if f.endswith(s) or inst.endswith(s):
            return True
    return False


def callee(n):
    return n.get("inst") or n.get("f") or ""


def calls_in(n, *suffixes):
    return [x for x in walk(n) if is_call(x, *suffixes)]


def lit_val(n):
    if isinstance(n, dict) and n.get("k") == "lit":
        return n.get("v")
    return None


def peel(n):
    """strip references, derefs, clones, as_ref/as_str/to_string/unwrap-free adapters"""
    while isinstance(n, dict):
        k = n.get("k")
        if k == "ref":
            n = n["e"]
        elif k == "un" and n.get("op") == "*":
            n = n["e"]
        elif k == "mcall" and n.get("m") in ("as_ref", "as_str", "clone", "to_string", "as_deref",
                                             "to_owned", "iter", "as_mut", "borrow", "as_slice",
                                             "into_iter", "cloned", "copied", "to_vec", "trim",
                                             "to_uppercase") and not n.get("args"):
            n = n["recv"]
        elif k == "block" and not n.get("stmts") and n.get("expr") is not None:
            n = n["expr"]
        elif k == "cast":
            n = n["e"]
        else:
            break
    return n


def place(n):
    """('self','field_56') style path for local/field chains, else None"""
    n = peel(n)
    parts = []
    while isinstance(n, dict):
        k = n.get("k")
        if k == "field":
            parts.append(n["name"])
            n = peel(n["e"])
        elif k == "local":
            parts.append(n["name"])
            return tuple(reversed(parts))
        elif k == "index":
            parts.append("[]")
            n = peel(n["e"])
        elif k == "mcall" and n.get("m") in ("unwrap", "expect", "unwrap_or_default"):
            n = peel(n["recv"])
        else:
            return None
    return None


def place_str(n):
    p = place(n)
    return ".".join(p) if p else None


# ---------------------------------------------------------------------------
# normalisation of macro expansions: format!/format_args! and must_use wrappers

def _decode_template(hexs):
    b = bytes.fromhex(hexs)
    i = 0
    pieces = []
    nxt = 0
    while i < len(b):
        c = b[i]
        if c == 0 and i == len(b) - 1:
            break
        if c & 0xC0 == 0xC0:
            i += 1
            ph = {"arg": None, "prec": None, "width": None, "flags": None}
            if c & 1:
                ph["flags"] = int.from_bytes(b[i:i + 4], "little")
                i += 4
            if c & 2:
                ph["width"] = int.from_bytes(b[i:i + 2], "little")
                if c & 0x10:
                    ph["width"] = "arg%d" % ph["width"]
                i += 2
            if c & 4:
                ph["prec"] = int.from_bytes(b[i:i + 2], "little")
                if c & 0x20:
                    ph["prec"] = "arg%d" % ph["prec"]      # precision taken from an argument ({:.prec$})
                i += 2
            if c & 8:
                nxt = int.from_bytes(b[i:i + 2], "little")
                i += 2
            if ph["flags"] is not None and (ph["flags"] >> 28) & 1 and ph["prec"] is None:
                ph["prec"] = 0
            if ph["flags"] is not None and (ph["flags"] >> 27) & 1 and ph["width"] is None:
                ph["width"] = 0
            if ph["flags"] is not None:
                ph["zero"] = bool((ph["flags"] >> 24) & 1)
            ph["arg"] = nxt
            nxt += 1
            pieces.append(ph)
        elif c == 0x80:
            ln = int.from_bytes(b[i + 1:i + 3], "little")
            pieces.append(b[i + 3:i + 3 + ln].decode("utf-8", "replace"))
            i += 3 + ln
        else:
            ln = c
            pieces.append(b[i + 1:i + 1 + ln].decode("utf-8", "replace"))
            i += 1 + ln
    return pieces


def _fmt_block(n):
    """recognise the HIR lowering of format_args!: returns a fmt node or None"""
    if n.get("k") == "call" and (n.get("f") or "").endswith("fmt::Arguments::<'a>::from_str"):
        a = n.get("args") or []
        if a and lit_val(a[0]) is not None:
            return {"k": "fmt", "pieces": [lit_val(a[0])], "args": [], "ln": n.get("ln")}
        return None
    if n.get("k") != "block":
        return None
    inner = n.get("expr")
    while isinstance(inner, dict) and inner.get("k") == "block" and not inner.get("stmts"):
        inner = inner.get("expr")
    if not (isinstance(inner, dict) and inner.get("k") == "call"
            and (inner.get("f") or "").endswith("fmt::Arguments::<'a>::new")):
        return None
    tpl = inner["args"][0]
    if lit_val(tpl) is None:
        return None
    pieces = _decode_template(tpl["v"])
    stmts = n.get("stmts") or []
    user_args, slots = [], []
    if len(stmts) >= 1 and stmts[0].get("k") == "let" and stmts[0]["init"].get("k") == "tup":
        user_args = [peel_ref(x) for x in stmts[0]["init"]["es"]]
    if len(stmts) >= 2 and stmts[1].get("k") == "let" and stmts[1]["init"].get("k") == "array":
        for c in stmts[1]["init"]["es"]:
            tr = (c.get("f") or "").rsplit("::", 1)[-1]  # new_display / new_debug ...
            idx = None
            if c.get("args") and c["args"][0].get("k") == "field":
                try:
                    idx = int(c["args"][0]["name"])
                except ValueError:
                    idx = None
            slots.append({"trait": tr, "idx": idx, "ty": (c.get("ga") or [None])[0]})
    out_pieces = []
    for p in pieces:
        if isinstance(p, str):
            out_pieces.append(p)
        else:
            s = slots[p["arg"]] if p["arg"] is not None and p["arg"] < len(slots) else None
            q = dict(p)
            if s:
                q["trait"] = s["trait"]
                q["ty"] = s["ty"]
                q["arg"] = s["idx"]
            out_pieces.append(q)
    return {"k": "fmt", "pieces": out_pieces, "args": user_args, "ln": inner.get("ln")}


def peel_ref(n):
    while isinstance(n, dict) and n.get("k") == "ref":
        n = n["e"]
    return n


def simplify(n):
    """rewrite format_args blocks to 'fmt' nodes; drop must_use / fmt::format wrappers"""
    if isinstance(n, list):
        return [simplify(x) for x in n]
    if not isinstance(n, dict):
        return n
    if n.get("k") in ("block", "call"):
        f = _fmt_block(n)
        if f is not None:
            f["args"] = [simplify(a) for a in f["args"]]
            return f
    out = {}
    for k, v in n.items():
        if isinstance(v, (dict, list)):
            out[k] = simplify(v)
        else:
            out[k] = v
    # vec![a, b] expands to box_assume_init_into_vec_unsafe(write_box_via_move(new_uninit(), [a, b])): the array
    if out.get("k") == "call" and (out.get("f") or "").endswith("box_assume_init_into_vec_unsafe"):
        for x in walk(out):
            if x.get("k") == "array":
                return x
    if out.get("k") == "call" and (out.get("f") or "") in ("std::hint::must_use", "std::fmt::format",
                                                           "alloc::fmt::format"):
        a = out.get("args") or []
        if len(a) == 1:
            x = a[0]
            while isinstance(x, dict) and x.get("k") == "block" and not x.get("stmts") and x.get("expr"):
                x = x["expr"]
            if out["f"] == "std::hint::must_use":
                return x
            if isinstance(x, dict) and x.get("k") == "fmt":
                y = dict(x)
                y["string"] = True
                return y
    if out.get("k") == "block" and not out.get("stmts") and isinstance(out.get("expr"), dict) \
            and out["expr"].get("k") == "fmt":
        return out["expr"]
    # it.skip(k).next() is it.nth(k)
    if out.get("k") == "mcall" and out.get("m") == "next" and not out.get("args") and \
            isinstance(out.get("recv"), dict) and out["recv"].get("k") == "mcall" and out["recv"].get("m") == "skip" \
            and len(out["recv"].get("args") or []) == 1:
        sk = out["recv"]
        y = dict(out)
        y["m"] = "nth"
        y["recv"] = sk["recv"]
        y["args"] = sk["args"]
        for key in ("f", "inst"):
            if isinstance(y.get(key), str):
                y[key] = y[key].replace("::next", "::nth")
        return y
    if out.get("k") == "match":
        c = _cmp_match(out)
        if c is not None:
            return c
    return out


_ORD = {"Greater": ">", "Less": "<", "Equal": "=="}


def _cmp_match(n):
    """`match a.cmp(&b) { Greater => x, Less => y, Equal => z }` is `if a > b {x} else if a < b {y} else {z}`
    (arms in their order; the last arm becomes the final else)"""
    e = n.get("e")
    if not (isinstance(e, dict) and e.get("k") == "mcall" and e.get("m") == "cmp" and len(e.get("args") or []) == 1):
        return None
    arms = n.get("arms") or []
    if len(arms) not in (2, 3) or any(a.get("guard") is not None for a in arms):
        return None
    ops = []
    for i, a in enumerate(arms):
        p = a.get("pat") or {}
        nm = (p.get("path") or "").rsplit("::", 1)[-1]
        if p.get("k") in ("ppath", "pts", "pstruct") and "cmp::Ordering" in (p.get("path") or "") and nm in _ORD:
            ops.append(_ORD[nm])
        elif p.get("k") == "_" and i == len(arms) - 1:
            ops.append(None)
        else:
            return None
    if len(set(ops)) != len(ops) or (len(arms) == 2 and ops[-1] is not None):
        return None
    r = e["args"][0]
    while isinstance(r, dict) and r.get("k") == "ref":
        r = r["e"]

    def blk(b):
        return b if isinstance(b, dict) and b.get("k") == "block" else {"k": "block", "stmts": [], "expr": b,
                                                                         "ln": (b or {}).get("ln") if isinstance(b, dict) else None}
    res = blk(arms[-1]["body"])
    for a, op in reversed(list(zip(arms[:-1], ops[:-1]))):
        cond = {"k": "bin", "op": op, "l": e["recv"], "r": r, "ln": e.get("ln"), "t": "bool"}
        res = {"k": "if", "cond": cond, "then": blk(a["body"]), "else": res, "ln": n.get("ln"), "t": n.get("t")}
        if n.get("rt") is not None:
            res["rt"] = n["rt"]
    return res


def fmt_text(n):
    """literal skeleton of a fmt node: pieces joined, placeholders as {}"""
    return "".join(p if isinstance(p, str) else "{}" for p in n["pieces"])


# ---------------------------------------------------------------------------
# canonical local names
#
# Every rule that renders an expression as text (finding keys, atoms of the reference formulas, templates)
# would otherwise depend on the names a programmer chose for parameters, let-bindings, loop and pattern
# variables. Names are replaced at load time by names derived from what the variable *is*:
#   parameter i                      -> p<i>            (`self` stays)
#   `let x = <pure expr>` (immutable) -> s_<hash of the canonical text of the initialiser>   (same value = same name)
#   other let / mutable let           -> l_/m_<hash of (initialiser text, ordinal among equals)>
#   for / if-let / match / tuple patterns -> e_/v_<hash of (source text, path inside the pattern)>
#   closure parameters                -> c<depth>_<index><path>
# The source name is kept as `oname`; CN_NAMES maps canonical -> source name for readable messages.

CN_NAMES = {}
CN_INIT = {}      # s_ names -> initialiser node (for renderers that substitute)
_CN_TOKEN = re.compile(r"\b(?:[slmev]_[0-9a-f]{7}|c\d_\d+(?:_[\w]+)?)\b")


def readable(text):
    """replace canonical local names by the source names (for messages only)"""
    return _CN_TOKEN.sub(lambda m: CN_NAMES.get(m.group(0), m.group(0)), text)


def _h(*parts):
    return hashlib.sha1("\x1f".join(str(p) for p in parts).encode()).hexdigest()[:7]


_ANON = [False]


def _ctext(n, depth=0):
    """compact canonical rendering used only to derive names"""
    if n is None:
        return "_"
    if isinstance(n, list):
        return "[" + ",".join(_ctext(x, depth + 1) for x in n) + "]"
    if not isinstance(n, dict):
        return str(n)
    if depth > 12:
        return "…"
    k = n.get("k")
    if k == "local":
        if _ANON[0]:
            nm = n.get("name") or "?"
            return nm if nm == "self" or re.match(r"^p\d", nm) else "\u00b7"
        return n.get("name") or "?"
    if k == "lit":
        return repr(n.get("v"))
    if k == "field":
        return _ctext(n.get("e"), depth + 1) + "." + str(n.get("name"))
    if k in ("ref", "paren", "cast"):
        return _ctext(n.get("e"), depth + 1)
    if k == "un":
        return str(n.get("op")) + _ctext(n.get("e"), depth + 1)
    if k == "bin":
        return "(%s%s%s)" % (_ctext(n.get("l"), depth + 1), n.get("op"), _ctext(n.get("r"), depth + 1))
    if k == "mcall":
        return "%s.%s(%s)" % (_ctext(n.get("recv"), depth + 1), n.get("m"),
                              ",".join(_ctext(a, depth + 1) for a in n.get("args") or []))
    if k == "call":
        return "%s(%s)" % ((n.get("inst") or n.get("f") or "?"), ",".join(_ctext(a, depth + 1) for a in n.get("args") or []))
    if k == "index":
        return "%s[%s]" % (_ctext(n.get("e"), depth + 1), _ctext(n.get("i"), depth + 1))
    if k == "try":
        return _ctext(n.get("e"), depth + 1) + "?"
    if k == "block" and not n.get("stmts"):
        return _ctext(n.get("expr"), depth + 1)
    if k == "fmt":
        return "fmt(%s;%s)" % ("".join(p if isinstance(p, str) else "{}" for p in n.get("pieces") or []),
                               ",".join(_ctext(a, depth + 1) for a in n.get("args") or []))
    if k == "struct":
        return "%s{%s}" % ((n.get("path") or "").rsplit("::", 1)[-1],
                           ",".join("%s:%s" % (f.get("name"), _ctext(f.get("e"), depth + 1)) for f in n.get("fields") or []))
    # generic: kind + children in key order, without line numbers and ids
    parts = []
    for kk, v in n.items():
        if kk in ("k", "ln", "id", "exp", "t", "rt", "bt", "it", "ty", "ga", "oname"):
            continue
        if isinstance(v, (dict, list)):
            parts.append(_ctext(v, depth + 1))
        elif kk in ("m", "f", "op", "name", "path", "v"):
            parts.append(str(v))
    return "%s<%s>" % (k, ",".join(parts))


def _pure(n, mutable_ids):
    for x in walk(n):
        k = x.get("k")
        if k == "mcall" and (x.get("rt") or "").startswith("&mut"):
            return False
        if k == "ref" and x.get("mut"):
            return False
        if k == "local" and x.get("id") in mutable_ids:
            return False
        if k in ("assign", "assignop", "closure", "while", "loop", "for"):
            return False
    return True


def _pat_bindings(p, path, out):
    if not isinstance(p, dict):
        return
    k = p.get("k")
    if k == "bind":
        out.append((p, path))
        if p.get("sub"):
            _pat_bindings(p["sub"], path, out)
        return
    if k in ("ptup", "por"):
        for i, q in enumerate(p.get("pats") or []):
            _pat_bindings(q, path + ("" if k == "por" else ".%d" % i), out)
    elif k == "pts":
        ctor = (p.get("path") or "").rsplit("::", 1)[-1]
        for i, q in enumerate(p.get("pats") or []):
            _pat_bindings(q, path + ".%s%d" % (ctor, i), out)
    elif k == "pstruct":
        ctor = (p.get("path") or "").rsplit("::", 1)[-1]
        for f in p.get("fields") or []:
            _pat_bindings(f.get("pat"), path + ".%s.%s" % (ctor, f.get("name")), out)
    elif k in ("pref", "pguard"):
        _pat_bindings(p.get("pat"), path, out)
    elif k == "pslice":
        for i, q in enumerate(p.get("pre") or []):
            _pat_bindings(q, path + ".pre%d" % i, out)
        _pat_bindings(p.get("mid"), path + ".mid", out)
        for i, q in enumerate(p.get("post") or []):
            _pat_bindings(q, path + ".post%d" % i, out)


def canon_locals(b):
    names = {}          # local id -> canonical name
    mutable = set()
    used = {}

    def fresh(base):
        c = used.get(base, 0)
        used[base] = c + 1
        return base if c == 0 else _h(base, c)

    def setname(node, cn):
        on = node.get("name")
        node["oname"] = on
        node["name"] = cn
        names[node["id"]] = cn
        if on is not None and cn != on:
            CN_NAMES.setdefault(cn, on)

    def bind(pat, kind, src_text, init_node=None, clo=None):
        bs = []
        _pat_bindings(pat, "", bs)
        for node, path in bs:
            is_mut = "Mut" in (node.get("mode") or "").split(",")[-1]
            if is_mut:
                mutable.add(node["id"])
            if node.get("name") == "self":
                names[node["id"]] = "self"
                continue
            if clo is not None:
                d, i = clo
                cn = "c%d_%d%s" % (d, i, re.sub(r"\W", "_", path))
                setname(node, cn)
                continue
            if kind == "param":
                setname(node, "p%s%s" % (src_text, re.sub(r"\W", "_", path)))
                continue
            if kind == "let" and not path and not is_mut and init_node is not None and _pure(init_node, mutable):
                cn = "s_" + _h("s", src_text)
                setname(node, cn)
                CN_INIT.setdefault(cn, init_node)
                continue
            pre = {"let": "l", "elem": "e", "val": "v"}[kind]
            if is_mut and kind == "let":
                pre = "m"
            base = pre + "_" + _h(pre, src_text, path)
            cn = fresh(base)
            if cn != base:
                cn = pre + "_" + cn
            setname(node, cn)

    def go(n, cdepth):
        if isinstance(n, list):
            for x in n:
                go(x, cdepth)
            return
        if not isinstance(n, dict):
            return
        k = n.get("k")
        if k == "local":
            cn = names.get(n.get("id"))
            if cn is not None and cn != n.get("name"):
                n["oname"] = n.get("name")
                n["name"] = cn
            return
        if k in ("let", "letx"):
            if n.get("init") is not None:
                go(n["init"], cdepth)
            if n.get("pat") is not None:
                bind(n["pat"], "let" if k == "let" else "val", _ctext(n.get("init")), n.get("init"))
            for kk in ("els", "else"):
                if n.get(kk) is not None:
                    go(n[kk], cdepth)
            return
        if k == "for":
            go(n.get("iter"), cdepth)
            bind(n.get("pat"), "elem", _ctext(n.get("iter")))
            go(n.get("body"), cdepth)
            return
        if k == "match":
            go(n.get("e"), cdepth)
            st = _ctext(n.get("e"))
            for a in n.get("arms") or []:
                bind(a.get("pat"), "val", st)
                if a.get("guard") is not None:
                    go(a["guard"], cdepth)
                if isinstance(a.get("pat"), dict):
                    for g in walk_guards(a["pat"]):
                        go(g, cdepth)
                go(a.get("body"), cdepth)
            return
        if k == "closure":
            for i, p in enumerate(n.get("params") or []):
                bind(p, "clo", "", clo=(cdepth, i))
            go(n.get("body"), cdepth + 1)
            return
        if k == "if":
            go(n.get("cond"), cdepth)
            go(n.get("then"), cdepth)
            go(n.get("else"), cdepth)
            return
        for kk, v in n.items():
            if kk in ("pat", "pats", "params"):
                continue
            if isinstance(v, (dict, list)):
                go(v, cdepth)

    pi = 0
    for p in b.get("params") or []:
        bind(p, "param", str(pi))
        pi += 1
    go(b["body"], 0)


def walk_guards(p):
    if not isinstance(p, dict):
        return
    if p.get("k") == "pguard" and p.get("guard") is not None:
        yield p["guard"]
    for q in p.get("pats") or []:
        yield from walk_guards(q)
    if p.get("pat"):
        yield from walk_guards(p["pat"])


def tail_maps(n, is_result):
    """In result position `R.map(Ctor)` is `Ok(Ctor(R?))` (resp. `Some(Ctor(O?))`): rewrite it so, so that the
    combinator spelling and the `let x = R?; Ok(Ctor(x))` spelling are one shape for every rule."""
    if not isinstance(n, dict):
        return n
    k = n.get("k")
    if k == "block":
        if n.get("expr") is not None:
            n = dict(n)
            n["expr"] = tail_maps(n["expr"], is_result)
        if n.get("stmts"):
            n = dict(n)
            n["stmts"] = [_ret_maps(s, is_result) for s in n["stmts"]]
        return n
    if k == "if":
        n = dict(n)
        n["then"] = tail_maps(n.get("then"), is_result)
        if n.get("else") is not None:
            n["else"] = tail_maps(n["else"], is_result)
        return n
    if k == "match":
        n = dict(n)
        n["arms"] = [dict(a, body=tail_maps(a.get("body"), is_result)) for a in n.get("arms") or []]
        return n
    if k == "ret" and n.get("e") is not None:
        return dict(n, e=tail_maps(n["e"], is_result))
    if k == "call" and n.get("ctor") and len(n.get("args") or []) == 1 and \
            (n.get("f") or "").rsplit("::", 1)[-1] in ("Ok", "Some", "Err"):
        a0 = n["args"][0]
        while isinstance(a0, dict) and a0.get("k") == "block" and not a0.get("stmts") and a0.get("expr") is not None:
            a0 = a0["expr"]
        # Ok(if c { a } else { b })  is  if c { Ok(a) } else { Ok(b) }   (same for match)
        if isinstance(a0, dict) and a0.get("k") == "if" and a0.get("else") is not None:
            def wrap(e):
                if isinstance(e, dict) and e.get("k") == "block":
                    if e.get("expr") is None:
                        return e
                    return dict(e, expr=wrap(e["expr"]))
                return tail_maps(dict(n, args=[e]), is_result)
            return dict(a0, then=wrap(a0["then"]), **{"else": wrap(a0["else"])})
        if isinstance(a0, dict) and a0.get("k") == "match":
            def wrapm(e):
                if isinstance(e, dict) and e.get("k") == "block":
                    if e.get("expr") is None:
                        return e
                    return dict(e, expr=wrapm(e["expr"]))
                return tail_maps(dict(n, args=[e]), is_result)
            return dict(a0, arms=[dict(a, body=wrapm(a.get("body"))) for a in a0.get("arms") or []])
    if k == "mcall" and n.get("m") == "map" and len(n.get("args") or []) == 1:
        a = n["args"][0]
        f = n.get("f") or ""
        if isinstance(a, dict) and a.get("k") == "def" and a.get("dk") == "ctor" and \
                ((is_result and f.endswith("Result::<T, E>::map")) or (not is_result and f.endswith("Option::<T>::map"))):
            inner = {"k": "call", "ln": n.get("ln"), "ctor": True, "f": a.get("def"),
                     "args": [{"k": "try", "ln": n.get("ln"), "e": n.get("recv"), "t": (n.get("ga") or [None])[0]}]}
            return {"k": "call", "ln": n.get("ln"), "ctor": True,
                    "f": "std::prelude::v1::Ok" if is_result else "std::prelude::v1::Some", "args": [inner],
                    "t": n.get("t")}
    return n


def _ret_maps(s, is_result):
    """`return R.map(Ctor)` inside statements"""
    if not isinstance(s, dict):
        return s
    if s.get("k") == "ret":
        return tail_maps(s, is_result)
    out = {}
    for kk, v in s.items():
        if kk == "closure":
            out[kk] = v
        elif isinstance(v, dict):
            out[kk] = _ret_maps(v, is_result) if v.get("k") != "closure" else v
        elif isinstance(v, list):
            out[kk] = [_ret_maps(x, is_result) if isinstance(x, dict) and x.get("k") != "closure" else x for x in v]
        else:
            out[kk] = v
    return out


def _inline_consts(n, consts):
    if isinstance(n, list):
        return [_inline_consts(x, consts) for x in n]
    if not isinstance(n, dict):
        return n
    if n.get("k") == "def" and n.get("dk") in ("const", "assoc_const") and n.get("def") in consts:
        v = dict(consts[n["def"]])
        v["from_const"] = n["def"]
        return v
    return {k: (_inline_consts(v, consts) if isinstance(v, (dict, list)) else v) for k, v in n.items()}


# ---------------------------------------------------------------------------
# edit distance between two versions of a function, in units of simple statements and conditions

def units(body):
    """multiset (list) of canonical texts of the simple statements, conditions, scrutinees, loop headers and result
    expressions of a body: what a small edit changes a few of and a restructuring changes most of"""
    out = []

    def simple(n):
        return not any(x.get("k") in ("if", "match", "for", "while", "loop", "closure") or
                       (x.get("k") == "block" and x.get("stmts")) for x in walk(n))

    def go(n):
        if isinstance(n, list):
            for x in n:
                go(x)
            return
        if not isinstance(n, dict):
            return
        k = n.get("k")
        if k == "block":
            for s in n.get("stmts") or []:
                go(s)
            if n.get("expr") is not None:
                e = n["expr"]
                if isinstance(e, dict) and simple(e):
                    out.append("R:" + _ctext(e))
                else:
                    go(e)
            return
        if k in ("let", "letx"):
            if n.get("init") is not None and simple(n["init"]):
                out.append("L:" + _ctext(n["init"]))
            else:
                out.append("L:*")
                go(n.get("init"))
            go(n.get("els"))
            return
        if k == "if":
            c = n.get("cond")
            if isinstance(c, dict) and simple(c):
                out.append("C:" + _ctext(c))
            else:
                go(c)
            go(n.get("then"))
            go(n.get("else"))
            return
        if k == "match":
            e = n.get("e")
            out.append("M:" + (_ctext(e) if isinstance(e, dict) and simple(e) else "*"))
            for a in n.get("arms") or []:
                out.append("A:" + _ctext(a.get("pat")))
                b = a.get("body")
                if isinstance(b, dict) and simple(b):
                    out.append("R:" + _ctext(b))
                else:
                    go(b)
            return
        if k in ("for", "while", "loop"):
            h = n.get("iter") if k == "for" else n.get("cond")
            out.append("H:" + (_ctext(h) if isinstance(h, dict) and simple(h) else k))
            go(n.get("body"))
            return
        if k == "closure":
            go(n.get("body"))
            return
        if k == "ret":
            e = n.get("e")
            if isinstance(e, dict) and simple(e):
                out.append("R:" + _ctext(e))
            else:
                go(e)
            return
        if simple(n):
            out.append("S:" + _ctext(n))
            return
        for kk, v in n.items():
            if kk in ("pat", "pats", "params"):
                continue
            if isinstance(v, (dict, list)):
                go(v)
    # locals other than parameters are written anonymously: changing one definition changes one unit, not every
    # statement that uses the variable
    _ANON[0] = True
    try:
        go(body)
    finally:
        _ANON[0] = False
    return out


def unit_distance(a, b):
    """(number of units only in one of the two, similarity in [0,1])"""
    from collections import Counter
    ca, cb = Counter(a), Counter(b)
    common = sum((ca & cb).values())
    total = max(sum(ca.values()), sum(cb.values()), 1)
    changed = sum((ca - cb).values()) + sum((cb - ca).values())
    return changed, common / total
