"""C03 — every well-formed message of a supported type is accepted and reproduced exactly."""
from .common import Report, Finding
from . import grules, options, accept, emit, grammar as G

LEVEL = "translation_validation"
EXPLANATION = ("The library's own model (struct declarations with Option/Vec, option enums) is the layout; decided "
               "is that the parser accepts everything the model can express, in the model's order: model <-> parser "
               "<-> serialiser kinds and order (G4, G6), every option of every enum is detectable at its step (G7), "
               "option letter -> variant is exact (O1), sequence loops are keyed on their marker (G8), two "
               "consecutive optional variant steps on one base tag decline each other's letters (CO), and the "
               "drop-free conditions shared with C01 (G1-G3). Field level: accept condition, stored components and emitted "
               "text of every field parser equal the reviewed reference (U6, U7, E1). No external SWIFT layout table.")
ASSUMPTIONS = ["the documented layout of a type is its model (struct / enum declarations)"]


def co_occurrence(rep, tms, ft):
    r = rep.rule("CO", "co-occurring options: when two consecutive optional variant steps read the same base tag "
                       "into enums with disjoint letters, the first must not consume (and fail on) the letters of "
                       "the second; MessageParser::parse_optional_variant_field has no declining path for a letter "
                       "the enum lacks", floor=1)
    from .options import letter_map
    for tm in tms:
        if tm.g is None:
            continue
        sites = [s for s in tm.g.sites if s.variant and s.kind == "optional"]
        for a, b in zip(tm.g.sites, tm.g.sites[1:]):
            if not (a.variant and b.variant and a.kind == "optional" and b.kind == "optional"):
                continue
            if a.tag != b.tag or a.ty == b.ty or a.loops != b.loops or a.conds != b.conds:
                continue
            if a.conds:      # inside a dispatch on the peeked letter: the steps are alternatives, not consecutive
                continue
            r["instances"] += 1
            _, la = letter_map(ft, a.ty)
            _, lb = letter_map(ft, b.ty)
            only_b = sorted(set(lb) - set(la))
            if only_b:
                rep.add(Finding("CO", a.fn, "%s:%s>%s" % (a.tag, G.short(a.ty), G.short(b.ty)),
                                "steps for %s (%s) and %s (%s) follow each other on tag %s; a message that carries "
                                "only the second (letters %s) is consumed by the first step, which does not decline "
                                "a letter its enum lacks (it runs the content heuristic or fails): well-formed "
                                "messages are rejected or re-tagged" % (G.short(a.ty), "".join(sorted(la)),
                                                                        G.short(b.ty), "".join(sorted(lb)), a.tag,
                                                                        ",".join(only_b)), tm.file, a.ln))
    return r


def run(F, tier):
    rep = Report("C03")
    tms, ft = grules.models(F)
    grules.g1(rep, tms)
    grules.g2(rep, F)
    grules.g3(rep, tms, F)
    grules.g4_g5_g6(rep, tms)
    rep.findings = [f for f in rep.findings if f.rule != "G5"]
    rep.rules.pop("G5", None)
    grules.g7(rep, tms, F)
    grules.g8(rep, tms)
    grules.g9(rep, tms)
    grules.g10(rep, tms)
    grules.g11(rep, tms)
    grules.g12(rep, tms)
    options.o1(rep, F, ft, tms)
    co_occurrence(rep, tms, ft)
    # field level: what each field parser accepts, what it stores and what it writes back, against the reference
    accept.u6(rep, F, "fields")
    accept.u7(rep, F, "fields")
    import re as _re
    mh = ("message-helpers", _re.compile(r"^messages::\w+::\w+::parse_(?!from_block4)"), 1)
    accept.u6(rep, F, mh)
    accept.u7(rep, F, mh)
    emit.e1(rep, F, "fields")
    rep.programs = 3 * len(tms)
    rep.cells = sum(x["instances"] for x in rep.rules.values())
    rep.sample({"type": tms[0].name, "model_vs_steps": [(s.tag, s.kind) for s in tms[0].g.sites][:20]})
    return rep
