"""R-rules: reject / return / cover / stp classification."""
import re
from .common import Finding
from .facts import walk, is_call, lit_val, peel, callee
from . import grammar as G

PREDS = ("has_reject_codes", "has_return_codes", "is_cover_message", "is_stp_compliant")


def contains_literals(body):
    out = []
    for n in walk(body):
        if n.get("k") == "mcall" and n.get("m") in ("contains", "starts_with", "eq", "ends_with") and \
                "str" in (n.get("rt") or "") + "String" if True else False:
            pass
    for n in walk(body):
        if n.get("k") == "mcall" and n.get("m") in ("contains", "starts_with", "ends_with", "find"):
            for a in n.get("args") or []:
                v = lit_val(peel(a))
                if isinstance(v, str):
                    out.append((v, n.get("ln")))
        if n.get("k") == "bin" and n.get("op") in ("==", "!="):
            for side in (n["l"], n["r"]):
                v = lit_val(peel(side))
                if isinstance(v, str) and v:
                    out.append((v, n.get("ln")))
    return out


def code_words(F, b, depth=0, seen=None):
    """string literals a classification predicate searches for: in its body, in constant tables it reads and in the
    crate-local helpers it calls (a table passed to a helper counts through the table)"""
    seen = seen if seen is not None else set()
    if b is None or "body" not in b or b["path"] in seen or depth > 3:
        return set()
    seen.add(b["path"])
    out = {v for v, _ in contains_literals(b["body"])}
    for n in walk(b["body"]):
        if n.get("k") == "def" and n.get("dk") in ("const", "assoc_const", "static"):
            cb = F.body_by_path.get(n.get("def"))
            if cb is not None and "body" in cb:
                for x in walk(cb["body"]):
                    if x.get("k") == "lit" and x.get("t") == "str" and x.get("v"):
                        out.add(x["v"])
        if n.get("k") == "array":
            for e in n.get("es") or []:
                v = lit_val(peel(e))
                if isinstance(v, str) and v:
                    out.add(v)
        if n.get("k") in ("call", "mcall"):
            cal = callee(n)
            hb = F.body_by_path.get(cal)
            if hb is not None and not hb.get("exp") and cal.startswith(("messages::", "swift_message::")) \
                    and hb["name"] not in PREDS:
                out |= code_words(F, hb, depth + 1, seen)
    return {w for w in out if w.startswith("/") or len(w) >= 3}


def r1(rep, F):
    r = rep.rule("R1", "classification literals: per type the code words searched by has_reject_codes and "
                       "has_return_codes are disjoint; across MT103/202/205 the reject sets are equal and the "
                       "return sets are equal; the message-level predicates dispatch to exactly the types that "
                       "define the predicate and call the predicate of the same name", floor=12)
    table = {}
    for T in G.message_types(F):
        for p in PREDS:
            b = F.fn(T, p, None)
            if b is not None and "body" in b:
                table.setdefault(p, {})[T] = b
    rej = table.get("has_reject_codes", {})
    ret = table.get("has_return_codes", {})
    if len(rej) < 3 or len(ret) < 3:
        rep.fail_closed("R1: fewer than 3 types define has_reject_codes/has_return_codes")
    lits = {}
    for p, d in table.items():
        for T, b in d.items():
            lits[(p, T)] = code_words(F, b)
            r["instances"] += 1
    r["literals"] = {"%s::%s" % (G.short(T), p): sorted(v) for (p, T), v in lits.items()}
    for T in rej:
        if T in ret:
            both = lits[("has_reject_codes", T)] & lits[("has_return_codes", T)]
            for w in sorted(both):
                b = rej[T]
                rep.add(Finding("R1", b["path"], "overlap:%s" % w,
                                "%s::has_reject_codes also matches the return code word %s: a message carrying "
                                "only a return code is classified as a reject" % (G.short(T), w),
                                b["file"], b["line"]))
    for p, d in (("has_reject_codes", rej), ("has_return_codes", ret)):
        allw = set()
        for T in d:
            allw |= lits[(p, T)]
        for T in sorted(d):
            own = lits[(p, T)]
            # words classified by a sibling but not here (after removing per-type overlaps)
            for w in sorted(allw - own):
                other = "has_return_codes" if p == "has_reject_codes" else "has_reject_codes"
                if any(w in lits.get((other, T2), set()) for T2 in d) and p == "has_reject_codes":
                    # the word is a return word somewhere: handled by the overlap report of that sibling
                    continue
                b = d[T]
                holders = ",".join(G.short(T2) for T2 in sorted(d) if w in lits[(p, T2)])
                rep.add(Finding("R1", b["path"], "missing:%s" % w,
                                "%s::%s does not recognise %s, which %s classifies the same way: the same code "
                                "word is classified differently per message type" % (G.short(T), p, w, holders),
                                b["file"], b["line"]))
    # message-level dispatch
    for p in ("has_reject_codes", "has_return_codes", "is_cover_message", "is_stp_message"):
        b = F.body_by_path.get("swift_message::SwiftMessage::<T>::" + p)
        if b is None:
            rep.fail_closed("R1: SwiftMessage::%s not found" % p)
            continue
        r["instances"] += 1
        inner = "is_stp_compliant" if p == "is_stp_message" else p
        want = set(table.get(inner, {}).keys())
        down = set()
        for n in walk(b["body"]):
            if n.get("k") in ("mcall", "call"):
                for g in n.get("ga") or []:
                    if g.startswith("messages::"):
                        down.add(g)
            if n.get("k") in ("call", "mcall") and callee(n).startswith("messages::"):
                nm = callee(n).rsplit("::", 1)[-1]
                if nm != inner:
                    rep.add(Finding("R1", b["path"], "wrong-predicate:%s" % nm,
                                    "SwiftMessage::%s answers with %s of the body type" % (p, nm),
                                    b["file"], n.get("ln")))
        for T in sorted(want - down):
            rep.add(Finding("R1", b["path"], "not-dispatched:%s" % G.short(T),
                            "SwiftMessage::%s never asks %s, which defines %s" % (p, G.short(T), inner),
                            b["file"], b["line"]))
        for T in sorted(down - want):
            rep.add(Finding("R1", b["path"], "dispatch-unknown:%s" % G.short(T),
                            "SwiftMessage::%s downcasts to %s, which has no %s" % (p, G.short(T), inner),
                            b["file"], b["line"]))
    return r


METHOD_OF = {"has_reject_codes": "reject", "has_return_codes": "return", "is_cover_message": "cover",
             "is_stp_message": "stp"}
ORDER = ["reject", "return", "cover", "stp", "normal"]
METHOD_WORDS = set(ORDER)


def if_chain(n):
    """[(cond or None, value-literals)] of an if / else-if / else chain"""
    out = []
    while isinstance(n, dict):
        n2 = n
        while n2.get("k") == "block" and not n2.get("stmts") and n2.get("expr") is not None:
            n2 = n2["expr"]
        if n2.get("k") == "if":
            out.append((n2["cond"], n2["then"]))
            n = n2.get("else")
            if n is None:
                break
        else:
            out.append((None, n2))
            break
    return out


def r2(rep, F):
    r = rep.rule("R2", "method selection in the parse plugin: a branch guarded by has_reject_codes yields "
                       "\"reject\", has_return_codes \"return\", is_cover_message \"cover\", is_stp_message \"stp\", "
                       "the else branch \"normal\", tested in that order; block-3 tests accompany the predicates "
                       "identically in all classifying arms; all other types are \"normal\"", floor=30)
    b = F.body_by_path.get("plugin::parse::Parse::parse_swift_mt")
    if b is None:
        rep.fail_closed("R2: plugin::parse::Parse::parse_swift_mt not found")
        return r
    table = None
    for n in walk(b["body"]):
        if n.get("k") == "match" and len(n.get("arms") or []) >= 20:
            table = n
            break
    if table is None:
        rep.fail_closed("R2: dispatch table of the parse plugin not found")
        return r
    shapes = {}
    for arm in table["arms"]:
        key = arm["pat"].get("v") if arm["pat"].get("k") == "plit" else None
        if key is None:
            continue
        r["instances"] += 1
        # assignments / let of `method`
        vals = []
        for n in walk(arm["body"]):
            tgt = None
            # the processing method: a variable assigned / bound from an expression that yields method words
            if n.get("k") == "assign":
                tgt = n["r"]
            if n.get("k") == "let" and n.get("init") is not None:
                tgt = n["init"]
            if tgt is not None and any(x.get("k") == "lit" and x.get("t") == "str" and x.get("v") in METHOD_WORDS
                                       for x in walk(tgt)):
                vals.append(tgt)
        if not vals:
            rep.add(Finding("R2", b["path"], "%s:no-method" % key, "arm %s does not set the processing method" % key,
                            b["file"], table.get("ln")))
            continue
        chain = if_chain(vals[0])
        shape = []
        for cond, val in chain:
            lits = [x["v"] for x in walk(val) if x.get("k") == "lit" and x.get("t") == "str"]
            lit = lits[0] if lits else None
            preds = []
            flags = []
            if cond is not None:
                for x in walk(cond):
                    if x.get("k") == "mcall" and x.get("m") in METHOD_OF:
                        preds.append(x["m"])
                    if x.get("k") == "lit" and x.get("t") == "str":
                        flags.append(x["v"])
                    if x.get("k") == "field" and x.get("name") in ("validation_flag", "message_user_reference"):
                        flags.append("@" + x["name"])
            shape.append((tuple(preds), tuple(sorted(set(flags))), lit))
            if cond is None:
                if lit != "normal":
                    rep.add(Finding("R2", b["path"], "%s:else:%s" % (key, lit),
                                    "arm %s: the fall-through method is \"%s\", not \"normal\"" % (key, lit),
                                    b["file"], table.get("ln")))
            else:
                want = {METHOD_OF[p] for p in preds}
                if len(want) != 1 or lit not in want:
                    rep.add(Finding("R2", b["path"], "%s:%s->%s" % (key, "+".join(preds) or "?", lit),
                                    "arm %s: a branch guarded by %s reports method \"%s\"" % (key, preds, lit),
                                    b["file"], table.get("ln")))
        seq = [ORDER.index(l) for _, _, l in shape if l in ORDER]
        if seq != sorted(seq):
            rep.add(Finding("R2", b["path"], "%s:order" % key,
                            "arm %s tests the classifications in the order %s; reject must win over return, "
                            "return over cover/stp" % (key, [l for _, _, l in shape]), b["file"], table.get("ln")))
        shapes[key] = shape
    classifying = {k: s for k, s in shapes.items() if len(s) > 1}
    r["classifying_arms"] = {k: [list(map(str, x)) for x in s] for k, s in classifying.items()}
    if set(classifying) != {"103", "202", "205"}:
        for k in sorted(set(classifying) ^ {"103", "202", "205"}):
            rep.add(Finding("R2", b["path"], "%s:classifying-set" % k,
                            "type %s %s a classification in the plugin although the message-level predicates "
                            "%s it" % (k, "gets" if k in classifying else "lacks",
                                       "do not cover" if k in classifying else "cover"), b["file"], table.get("ln")))
    # block-3 tests identical in all classifying arms
    def b3(shape):
        return {(l, f) for preds, flags, l in shape for f in flags if not f.startswith("@")}
    allb3 = set()
    for s in classifying.values():
        allb3 |= b3(s)
    for k, s in sorted(classifying.items()):
        for (l, f) in sorted(allb3 - b3(s)):
            if l in [x[2] for x in s]:
                rep.add(Finding("R2", b["path"], "%s:no-block3-test:%s" % (k, f),
                                "arm %s decides \"%s\" without the block-3 test for %s that its sibling arms "
                                "apply: the same header code classifies MT%s differently" % (k, l, f, k),
                                b["file"], table.get("ln")))
    return r


# ---------------------------------------------------------------------------
# R3: a code word counts wherever it stands in the narrative

POSITIONAL = ("first", "last", "get", "nth", "next", "take", "skip", "split_first", "split_last", "pop", "remove",
              "swap_remove", "truncate", "step_by", "take_while", "skip_while", "nth_back", "next_back", "get_mut",
              "first_mut", "last_mut", "chunks", "windows")


def r3(rep, F):
    """has_reject_codes / has_return_codes / is_cover_message read a narrative (`information: Vec<String>` of
    field 72 / 79) and the property says 'carries a code word in one of the documented places', i.e. on any line:
    every read of a narrative vector in a classification predicate (and in the helpers it calls) must be consumed by
    a traversal of all its elements; a positional selection (first / [0] / get / take / skip ..) makes the verdict
    depend on where the code word stands."""
    from .relidx import _parents
    r = rep.rule("R3", "every line counts: in has_reject_codes / has_return_codes / is_cover_message (all message "
                       "types, helpers included) a narrative vector (Vec<String> component of field 72 / 79) is "
                       "consumed by a traversal of all its lines, never through first / last / get / [k] / take / "
                       "skip / next", floor=7)
    seen = set()

    def scan(b, root, depth):
        if b is None or "body" not in b or b.get("exp") or b["path"] in seen or depth > 2:
            return
        seen.add(b["path"])
        par = _parents(b["body"])
        for n in walk(b["body"]):
            if n.get("k") in ("call", "mcall"):
                cal = callee(n)
                hb = F.body_by_path.get(cal)
                if hb is not None and cal.startswith("messages::") and hb.get("name") not in PREDS:
                    scan(hb, root, depth + 1)
            if n.get("k") != "field":
                continue
            ad = F.adts.get(n.get("bt") or "")
            ty = ""
            for v_ in (ad or {}).get("variants") or []:
                for f_ in v_.get("fields") or []:
                    if f_.get("name") == n.get("name"):
                        ty = f_.get("ty") or ""
            if not re.search(r"Vec<(std::string::)?String>", ty):
                continue
            r["instances"] += 1
            # climb through the adapters applied to the vector
            chain = []
            cur = n
            p = par.get(id(cur))
            while isinstance(p, dict):
                k = p.get("k")
                if k in ("ref", "un", "cast", "paren") or (k == "block" and not p.get("stmts")):
                    cur, p = p, par.get(id(p))
                    continue
                if k == "mcall" and p.get("recv") is cur:
                    chain.append(p.get("m"))
                    cur, p = p, par.get(id(p))
                    continue
                if k == "index" and p.get("e") is cur:
                    chain.append("[..]")
                break
            bad = [m for m in chain if m in POSITIONAL or m == "[..]"]
            if bad:
                rep.add(Finding("R3", root["path"], "positional:%s:%s" % (n.get("name"), bad[0]),
                                "%s reads the narrative `%s` through `%s`: a code word on another line is not seen, "
                                "the classification depends on where the code word stands"
                                % (root["path"], n.get("name"), ".".join(chain)[:80]), b["file"], n.get("ln")))

    n_pred = 0
    for b in F.bodies:
        if "body" not in b or b.get("exp") or b.get("name") not in PREDS[:3]:
            continue
        if not (b.get("impl_self") or "").startswith("messages::"):
            continue
        n_pred += 1
        seen.clear()
        scan(b, b, 0)
    r["analysed"] = n_pred
    return r
