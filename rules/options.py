"""O-rules: option enums — dispatcher exactness (O1), heuristic honesty (O2), call-site letter (O3)."""
import re
from .common import Finding
from .facts import walk, is_call, lit_val, peel, callee
from . import grammar as G

LETTERS = [chr(c) for c in range(65, 91)]


def letter_map(ft, E):
    """{letter or '': variant name} from the tags each variant's payload emits, plus base tag"""
    out = {}
    base = None
    for vn, tags in ft.variant_emits(E).items():
        for t in tags:
            b, l = t[:2], t[2:]
            base = base or b
            out[l] = vn
    return base, out


def pat_matches(p, v):
    """does arm pattern p match argument v (None or a string)?"""
    k = p.get("k")
    if k in ("_", "bind"):
        return True
    if k == "por":
        return any(pat_matches(q, v) for q in p["pats"])
    if k in ("ppath", "pts", "pstruct"):
        path = p.get("path") or ""
        if path.endswith("::None"):
            return v is None
        if path.endswith("::Some"):
            if v is None:
                return False
            subs = p.get("pats") or [f["pat"] for f in p.get("fields") or []]
            if not subs:
                return True
            return pat_matches(subs[0], v)
    if k == "plit":
        return v is not None and p.get("v") == v
    if k == "pref":
        return pat_matches(p["pat"], v)
    return None   # unknown


def arm_outcome(ft, E, arm_body):
    """('variant', name, payload parse type) | ('heuristic',) | ('err',) | ('other',)"""
    ctors = [x for x in walk(arm_body) if x.get("k") == "call" and x.get("ctor")
             and (x.get("f") or "").startswith(E + "::")]
    parses = [x for x in walk(arm_body) if is_call(x, "SwiftField::parse")]
    if ctors:
        vn = ctors[0]["f"].rsplit("::", 1)[-1]
        pt = None
        for x in parses:
            m = re.match(r"^<(.*) as traits::SwiftField>::parse$", x.get("inst") or "")
            if m:
                pt = m.group(1)
        return ("variant", vn, pt)
    for x in parses:
        ga = x.get("ga") or []
        inst = x.get("inst") or ""
        if (ga and ga[0] == E) or inst.startswith("<%s as" % E):
            return ("heuristic",)
    if any(x.get("k") == "call" and x.get("ctor") and (x.get("f") or "").endswith("::Err") for x in walk(arm_body)):
        return ("err",)
    return ("other",)


def o1(rep, F, ft, tms):
    r = rep.rule("O1", "option dispatcher is exact: for each option enum E used at a variant step and each "
                       "argument v in {None, Some(\"\"), Some(\"A\")..Some(\"Z\")} the arm selected by "
                       "parse_with_variant constructs exactly the variant whose tag is base+v from that "
                       "variant's own parser, is an error for letters E does not have, and never falls into the "
                       "content heuristic when a letter (or the explicit no-letter marker) was seen", floor=500)
    used = {}
    for tm in tms:
        if tm.g is None:
            continue
        for s in tm.g.sites:
            if s.variant and s.ty:
                used.setdefault(s.ty, []).append((tm.name, s))
    for E in sorted(used):
        base, lm = letter_map(ft, E)
        b = ft.fn(E, "parse_with_variant")
        variants = dict(ft.variants(E))
        r["analysed"] += 1
        if b is None:
            r["instances"] += 28
            rep.add(Finding("O1", "<%s as traits::SwiftField>" % E, "no-override",
                            "%s does not override parse_with_variant: the trait default ignores the option letter "
                            "and runs the content heuristic, so the tag written in the message does not decide "
                            "the variant (used at %d variant steps, e.g. %s)"
                            % (G.short(E), len(used[E]), used[E][0][0]), (ft.fn(E, "parse") or {}).get("file"),
                            (ft.fn(E, "parse") or {}).get("line")))
            continue
        m = None
        for n in walk(b["body"]):
            if n.get("k") == "match":
                sc = peel(n["e"])
                if isinstance(sc, dict) and sc.get("k") == "local":
                    m = n
                    break
        if m is None:
            rep.add(Finding("O1", b["path"], "no-match", "parse_with_variant of %s has no match on the variant "
                            "argument" % G.short(E), b["file"], b["line"]))
            continue
        classes = {}
        for v in [None, ""] + LETTERS:
            r["instances"] += 1
            sel = None
            for a in m["arms"]:
                pm = pat_matches(a["pat"], v)
                if pm is None:
                    sel = "unknown"
                    break
                if pm and not a.get("guard"):
                    sel = a
                    break
            if sel is None or sel == "unknown":
                classes.setdefault(("unmatched",), []).append(v)
                continue
            out = arm_outcome(ft, E, sel["body"])
            want_v = lm.get(v) if v is not None else lm.get("")
            if v is None:
                # API call without letter: NoOption variant if the enum has one, otherwise heuristic is allowed
                if "" in lm:
                    ok = out[0] == "variant" and out[1] == lm[""]
                else:
                    ok = out[0] in ("heuristic", "err")
            elif want_v is not None:
                ok = out[0] == "variant" and out[1] == want_v and (out[2] is None or out[2] == variants.get(want_v))
            else:
                ok = out[0] == "err"
            if not ok:
                cls = "None" if v is None else ("Some(\"\")" if v == "" else
                                                ("Some(own-letter)" if want_v is not None else "Some(foreign-letter)"))
                classes.setdefault((cls, out[0] if out[0] != "variant" else "variant:" + str(out[1])), []).append(v)
        for (cls, *what), vs in sorted(classes.items(), key=lambda kv: str(kv[0])):
            w = what[0] if what else ""
            letters = ",".join("None" if x is None else '"%s"' % x for x in vs)
            rep.add(Finding("O1", b["path"], "%s->%s" % (cls, w),
                            "%s::parse_with_variant(%s) selects %s: %s" % (
                                G.short(E), letters if len(letters) < 60 else cls, w,
                                {"Some(\"\")": "a tag written without letter (:%s:) is parsed by the content "
                                               "heuristic and may come back as a lettered option" % base,
                                 "Some(foreign-letter)": "a letter this field does not have in this position "
                                                         "is not rejected; the content heuristic picks some "
                                                         "variant and the serialised tag differs from the input",
                                 "Some(own-letter)": "the letter does not select its own variant",
                                 "None": "no-letter call does not give the no-letter variant"}.get(cls, "")),
                            b["file"], m.get("ln")))
    return r


def o2(rep, F, ft):
    r = rep.rule("O2", "heuristic returns what it parsed: in E::parse every Ok(E::V(x)) has x bound from "
                       "<payload of V>::parse(input) on the unmodified input", floor=50)
    for E in ft.types:
        if not ft.is_enum(E):
            continue
        b = ft.fn(E, "parse")
        if b is None or "body" not in b:
            continue
        variants = dict(ft.variants(E))
        r["analysed"] += 1
        inp = None
        ps = b.get("params") or []
        if ps and ps[0].get("k") == "bind":
            inp = ps[0]["id"]
        # binding environment: local id -> parse call it comes from
        env = {}
        inputs = {inp}
        for n in walk(b["body"]):
            # `let trimmed = input.trim();` is the same content up to surrounding white space
            if n.get("k") == "let" and n.get("init") is not None and n["pat"].get("k") == "bind":
                x = peel(n["init"])
                if isinstance(x, dict) and x.get("k") == "local" and x.get("id") in inputs:
                    inputs.add(n["pat"]["id"])

        def bind(pat, init):
            init_c = None
            for x in walk(init):
                if is_call(x, "SwiftField::parse"):
                    init_c = x
                    break
            if init_c is None:
                return
            for q in walk_pat(pat):
                env[q["id"]] = init_c

        for n in walk(b["body"]):
            if n.get("k") in ("let", "letx") and n.get("init") is not None:
                bind(n["pat"], n["init"])
        for n in walk(b["body"]):
            if n.get("k") == "call" and n.get("ctor") and (n.get("f") or "").startswith(E + "::"):
                vn = n["f"].rsplit("::", 1)[-1]
                r["instances"] += 1
                arg = peel((n.get("args") or [None])[0])
                src = None
                if isinstance(arg, dict) and arg.get("k") == "local":
                    src = env.get(arg["id"])
                elif isinstance(arg, dict):
                    for x in walk(arg):
                        if is_call(x, "SwiftField::parse"):
                            src = x
                            break
                if src is None:
                    rep.add(Finding("O2", b["path"], "%s:unbound" % vn,
                                    "%s::parse returns %s(..) with a payload that does not come from a parser "
                                    "call" % (G.short(E), vn), b["file"], n.get("ln")))
                    continue
                mt = re.match(r"^<(.*) as traits::SwiftField>::parse$", src.get("inst") or "")
                pty = mt.group(1) if mt else None
                if pty != variants.get(vn):
                    rep.add(Finding("O2", b["path"], "%s:wrong-parser" % vn,
                                    "%s::parse wraps the result of %s::parse into variant %s (payload type %s): "
                                    "the returned variant's own parser did not accept the content"
                                    % (G.short(E), G.short(pty), vn, G.short(variants.get(vn))), b["file"], n.get("ln")))
                a0 = peel((src.get("args") or [None])[0])
                if not (isinstance(a0, dict) and a0.get("k") == "local" and a0.get("id") in inputs):
                    rep.add(Finding("O2", b["path"], "%s:modified-input" % vn,
                                    "%s::parse feeds a modified input to %s::parse" % (G.short(E), G.short(pty)),
                                    b["file"], n.get("ln")))
    return r


def walk_pat(p):
    if not isinstance(p, dict):
        return
    if p.get("k") == "bind":
        yield p
        if p.get("sub"):
            yield from walk_pat(p["sub"])
    for k in ("pats",):
        for q in p.get(k) or []:
            yield from walk_pat(q)
    if p.get("pat"):
        yield from walk_pat(p["pat"])
    for f in p.get("fields") or []:
        yield from walk_pat(f.get("pat"))


def o3(rep, F):
    r = rep.rule("O3", "call sites pass the letter they saw: in MessageParser::parse_(optional_)variant_field the "
                       "letter given to parse_with_variant, the tag given to extract_field and the field_tag of "
                       "the error all derive from one detector result", floor=2)
    for name, det in (("parse_variant_field", "detect_variant"),
                      ("parse_optional_variant_field", "detect_variant_optional")):
        b = F.body_by_path.get("parser::message_parser::MessageParser::<'a>::" + name)
        if b is None:
            rep.fail_closed("O3: MessageParser::%s not found" % name)
            continue
        r["instances"] += 1
        r["analysed"] += 1
        body = b["body"]
        vids = set()
        # locals bound from the detector call
        for n in walk(body):
            if n.get("k") in ("let", "letx") and n.get("init") is not None and \
                    any(is_call(x, "MessageParser::<'a>::" + det) for x in walk(n["init"])):
                vids |= {q["id"] for q in walk_pat(n["pat"])}
            if n.get("k") == "match" and any(is_call(x, "MessageParser::<'a>::" + det) for x in walk(n["e"])):
                for a in n["arms"]:
                    vids |= {q["id"] for q in walk_pat(a["pat"])}
        if not vids:
            rep.add(Finding("O3", b["path"], "no-detector", "%s does not bind the result of %s" % (name, det),
                            b["file"], b["line"]))
            continue
        # full tag = base tag followed by the detected letter, however the string is put together
        # (format!("{}{}", base, v), String::from(base) + push_str(v), [base, v].concat(), ...): the locals that flow
        # into it are the base-tag parameter and detector results only, and no literal text is added
        plist = [p for p in (b.get("params") or []) if p.get("k") == "bind" and p.get("name") != "self"]
        base_id = plist[0]["id"] if plist else None
        flows, lits = {}, {}
        for n in walk(body):
            if n.get("k") == "let" and n.get("init") is not None and n["pat"].get("k") == "bind":
                flows.setdefault(n["pat"]["id"], set()).update(
                    x["id"] for x in walk(n["init"]) if x.get("k") == "local")
                lits.setdefault(n["pat"]["id"], set()).update(
                    x["v"] for x in walk(n["init"]) if x.get("k") == "lit" and x.get("t") in ("str", "char") and x.get("v"))
                for x in walk(n["init"]):
                    if x.get("k") == "fmt":
                        lits[n["pat"]["id"]].update(p for p in x["pieces"] if isinstance(p, str) and p)
            if n.get("k") == "mcall" and n.get("m") in ("push_str", "push"):
                rv = peel(n.get("recv"))
                if isinstance(rv, dict) and rv.get("k") == "local":
                    for a_ in n.get("args") or []:
                        flows.setdefault(rv["id"], set()).update(x["id"] for x in walk(a_) if x.get("k") == "local")
                        lits.setdefault(rv["id"], set()).update(
                            x["v"] for x in walk(a_) if x.get("k") == "lit" and x.get("t") in ("str", "char") and x.get("v"))
        tagids = set()
        for lid, src in flows.items():
            if (src & vids) and src <= (vids | {base_id}) and base_id in src and not lits.get(lid):
                tagids.add(lid)
        ok_pwv = ok_ext = False
        for n in walk(body):
            if is_call(n, "SwiftField::parse_with_variant"):
                a = n.get("args") or []
                if len(a) >= 2:
                    x = a[1]
                    loc = [y for y in walk(x) if y.get("k") == "local"]
                    ok_pwv = bool(loc) and all(y["id"] in vids for y in loc)
            if is_call(n, "MessageParser::<'a>::extract_field"):
                a = n.get("args") or []
                loc = [y for y in walk(a[0]) if y.get("k") == "local"] if a else []
                ok_ext = bool(loc) and all(y["id"] in tagids for y in loc)
        for n in walk(body):
            if is_call(n, "SwiftField::parse") and not is_call(n, "SwiftField::parse_with_variant"):
                rep.add(Finding("O3", b["path"], "letterless-parse",
                                "%s also calls the letterless T::parse on the content: a content that does not fit "
                                "the option named by the tag can come back as another option" % name,
                                b["file"], n.get("ln")))
        if not ok_pwv:
            rep.add(Finding("O3", b["path"], "letter-arg",
                            "%s does not pass the detected letter to parse_with_variant" % name, b["file"], b["line"]))
        if not ok_ext:
            rep.add(Finding("O3", b["path"], "tag-arg",
                            "%s extracts a tag that is not base tag + detected letter" % name, b["file"], b["line"]))
    return r
