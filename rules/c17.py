"""C17 — reject / return / cover classification follows the codes present, consistently."""
from .common import Report
from . import accept
from . import classify

LEVEL = "other"
EXPLANATION = ("Sibling cross-check over the resolved program: the code-word literals searched by the per-type "
               "predicates (MT103/202/205) are compared for disjointness (reject vs return) and equality across "
               "types (R1); the message-level predicates must downcast to exactly the types that define the "
               "predicate; in the parse plugin each of the 30 arms' method selection chain is extracted and "
               "checked against predicate -> method, priority order and sibling agreement of block-3 tests (R2); every "
               "narrative vector a predicate reads is traversed completely, never selected by position (R3).")
ASSUMPTIONS = ["the code words are the string literals passed to str::contains in the predicates"]


def run(F, tier):
    rep = Report("C17")
    r = classify.r1(rep, F)
    r2 = classify.r2(rep, F)
    classify.r3(rep, F)
    rep.sample({"literals": r.get("literals")})
    rep.sample({"classifying_arms": r2.get("classifying_arms")})
    accept.u6(rep, F, "predicates")
    # the block-3 values the classification reads (validation flag 119, MUR 108) must reach the model as written
    import re
    accept.u7(rep, F, ("block3", re.compile(r"^headers::UserHeader::parse$"), 1))
    return rep
