"""C17 — reject / return / cover classification follows the codes present, consistently."""
from .common import Report
from . import accept
from . import classify

LEVEL = "other"
EXPLANATION = ("Sibling cross-check over the resolved program: the code-word literals searched by the per-type "
               "predicates (MT103/202/205) are compared for disjointness (reject vs return) and equality across "
               "types (R1); the message-level predicates must downcast to exactly the types that define the "
               "predicate; in the parse plugin each of the 30 arms' method selection chain is extracted and "
               "checked against predicate -> method, priority order and sibling agreement of block-3 tests (R2); every "
               "narrative vector a predicate reads is traversed completely, never selected by position (R3).")
ASSUMPTIONS = ["the code words are the string literals passed to str::contains in the predicates"]


def run(F, tier):
    rep = Report("C17")
    r = classify.r1(rep, F)
    r2 = classify.r2(rep, F)
    classify.r3(rep, F)
    rep.sample({"literals": r.get("literals")})
    rep.sample({"classifying_arms": r2.get("classifying_arms")})
    accept.u6(rep, F, "predicates")
    # the block-3 values the classification reads (validation flag 119, MUR 108) must reach the model as written
    import re
    accept.u7(rep, F, ("block3", re.compile(r"^headers::UserHeader::parse$"), 1))
    # cover is read off the parsed cover sequence: a cover-sequence field that was consumed from the text but did not
    # make the parser build the sequence is invisible to is_cover_message (G4 conditional construction, shared
    # with C01; only the types that carry a classification predicate)
    from . import grules
    tms, ft = grules.models(F)
    pred_types = {(b.get("impl_self") or "") for b in F.bodies
                  if b.get("name") in classify.PREDS and (b.get("impl_self") or "").startswith("messages::")}
    keep = len(rep.findings)
    grules.g4_g5_g6(rep, [tm for tm in tms if tm.T in pred_types])
    rep.findings = rep.findings[:keep] + [f for f in rep.findings[keep:]
                                          if f.rule == "G4" and f.instance.endswith(":conditional-drop")]
    for rid in ("G5", "G6"):
        rep.rules.pop(rid, None)
    if "G4" in rep.rules:
        rep.rules["G4"]["floor"] = 40       # three message types here, not thirty
    return rep
