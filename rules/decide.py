"""When may a difference from a reviewed reference be reported?

The reference rules (U6, U7, E1, V4) compare what the extractor reads from the current source with what it read from
the reviewed tree. A difference is a *violation* only when it is expressible in vocabulary both sides share: then
there is an input class on which the two programs provably behave differently. When the differing parts contain
terms the extractor could not resolve to the function's inputs (a construct it does not interpret, a helper that did
not exist when the reference was reviewed, an unresolved local), the two texts may well be two spellings of one
condition: equivalence is *undecided*, and undecided is reported as a note, never as a violation.

`opaque(text, vocab)` says whether an atom / template piece contains such a term; `definite_difference` evaluates two
formulas in three-valued logic with the opaque atoms unknown and looks for an assignment of the shared, interpretable
atoms under which both formulas are determined and differ."""
import itertools
import re
from . import guards

UNRESOLVED = re.compile(r"(?<![\w$~])(?:[slmev]_[0-9a-f]{7}|c\d_\d+\w*)\b|~|\bphi\(|\bOPQ\(|\bmatch\(|\|\.\.\||\?")
IDENT_CALL = re.compile(r"([A-Za-z_][A-Za-z0-9_]*(?:::[A-Za-z_][A-Za-z0-9_]*)*)\(")
# predicate / constructor names of the atom language itself and of std methods the extractors interpret
BUILTIN = {"GE", "GT", "GT2", "LE", "LT", "EQ", "EQ2", "NE", "IN", "HAS", "STARTS_WITH", "ENDS_WITH", "ALL", "ANY",
           "SOME", "OK", "CALLOK", "PARSES", "P", "OPQ", "LOOPOK", "LOOPEXIT", "LOOPO", "val", "len", "fmt", "new",
           "if", "abs", "Some", "Ok", "Err", "None", "cat", "loop", "IF", "FOR", "ELSE", "not", "and", "or"}


# deterministic std methods: `f(x)` with such an f is a definite function of x, not a possible re-spelling of an
# unrelated condition (a crate-local helper that the reference never saw is)
STD = set("""len is_empty chars bytes lines split splitn rsplit split_once rsplit_once split_at split_whitespace find
rfind contains starts_with ends_with strip_prefix strip_suffix trim trim_start trim_end trim_matches
trim_start_matches trim_end_matches to_uppercase to_lowercase to_ascii_uppercase to_ascii_lowercase to_string
to_owned as_str as_ref as_deref clone cloned copied parse get first last nth next peek iter into_iter enumerate skip
take rev zip chain once repeat_with successors map filter filter_map flat_map flatten any all count sum min max position rposition find_map fold
collect unwrap unwrap_or unwrap_or_default unwrap_or_else expect ok err ok_or ok_or_else and_then or_else is_some
is_none is_ok is_err is_some_and is_none_or map_or map_or_else abs round floor ceil trunc fract powi powf sqrt
is_nan is_finite is_infinite to_digit is_ascii_digit is_ascii_alphabetic is_ascii_alphanumeric is_ascii_uppercase
is_ascii_lowercase is_alphabetic is_numeric is_alphanumeric is_uppercase is_lowercase is_whitespace is_ascii
is_char_boundary char_indices join concat repeat replace replacen format push push_str insert extend retain sort
sort_by sort_by_key dedup truncate clear remove pop contains_key keys values entry or_default or_insert
or_insert_with from into try_from try_into year month day hour minute second format_with_items naive_local date
and_hms_opt from_ymd_opt from_hms_opt parse_from_str with_year eq ne lt le gt ge cmp partial_cmp not default new
with_capacity capacity downcast_ref type_id""".split())


def vocabulary(reference_texts):
    """identifiers used as function / method names anywhere in the reviewed reference"""
    v = set(BUILTIN) | STD
    for t in reference_texts:
        for m in IDENT_CALL.finditer(t):
            name = m.group(1)
            v.add(name)
            v.add(name.rsplit("::", 1)[-1])
    return v


EXTERNAL = set()      # names of functions / methods defined outside the crate (std, chrono, serde ..) that the
                      # analysed tree calls: their meaning is fixed, they cannot be a freshly written helper


def note_externals(F):
    tops = set()
    for b in F.bodies:
        p = (b.get("path") or "").lstrip("<&")
        tops.add(p.split("::", 1)[0].split(" ", 1)[0])
    tops = {t for t in tops if re.match(r"^[a-z_][a-z0-9_]*$", t or "")}
    local = re.compile(r"(?:^|[^A-Za-z0-9_:])(?:%s)::" % "|".join(sorted(map(re.escape, tops)))) if tops else None
    for b in F.bodies:
        if "body" not in b:
            continue
        st = [b["body"]]
        while st:
            n = st.pop()
            if isinstance(n, list):
                st.extend(n)
                continue
            if not isinstance(n, dict):
                continue
            if n.get("k") in ("call", "mcall"):
                f = n.get("inst") or n.get("f") or ""
                if f and not (local and local.search(f)) and re.match(r"^<?&?(mut )?(std|core|alloc|chrono|serde|serde_json|regex)\b", f):
                    nm = f.rsplit("::", 1)[-1]
                    if re.match(r"^[a-z_][a-z0-9_]*$", nm):
                        EXTERNAL.add(nm)
            st.extend(v for v in n.values() if isinstance(v, (dict, list)))


def opaque(text, vocab):
    if UNRESOLVED.search(text):
        return True
    # success of an iterator pipeline that runs a fallible closure (collect::<Result<..>>(), try_for_each ..):
    # what has to succeed is inside the closure and is not interpreted
    if re.search(r"\b(?:CALLOK|OK)\((?:collect|try_for_each|try_fold|sum|product)\(.*\|", text):
        return True
    for m in IDENT_CALL.finditer(text):
        name = m.group(1)
        if name.isupper() or name.startswith("IS_"):
            continue
        if name not in vocab and name.rsplit("::", 1)[-1] not in vocab and name.rsplit("::", 1)[-1] not in EXTERNAL:
            return True
    return False


def ev3(f, val):
    """Kleene evaluation; val maps atom -> True / False / None"""
    t = f[0]
    if t == "T":
        return True
    if t == "F":
        return False
    if t == "atom":
        return val.get(f[1])
    if t == "not":
        x = ev3(f[1], val)
        return None if x is None else (not x)
    if t == "and":
        a, b = ev3(f[1], val), ev3(f[2], val)
        if a is False or b is False:
            return False
        if a is None or b is None:
            return None
        return True
    if t == "or":
        a, b = ev3(f[1], val), ev3(f[2], val)
        if a is True or b is True:
            return True
        if a is None or b is None:
            return None
        return False
    return None


def definite_difference(f, g, vocab, limit=16):
    """(verdict, info): verdict in 'same' | 'different' | 'undecided'"""
    Af, Ag = guards.atoms_of(f), guards.atoms_of(g)
    allA = sorted(Af | Ag)
    # an opaque atom that occurs on both sides is the same (uninterpreted) condition on both sides: an ordinary
    # atom. Only opaque atoms private to one side can be another spelling of something on the other side.
    opq = {a for a in allA if opaque(a, vocab) and not (a in Af and a in Ag)}
    # a private opaque atom on one side that is, token for token, a private opaque atom of the other side except
    # for resolved text (the unresolved parts are literally the same) is not a possible re-spelling of it: the two
    # are distinct conditions
    import difflib
    pa_ = [a for a in opq if a in Af]
    pb_ = [a for a in opq if a in Ag]
    while pa_ and pb_:
        best = None
        for x in pa_:
            for y in pb_:
                rt = difflib.SequenceMatcher(a=x, b=y, autojunk=False).quick_ratio()
                if best is None or rt > best[0]:
                    best = (rt, x, y)
        if best is None or best[0] < 0.6:
            break
        _, x, y = best
        pa_.remove(x)
        pb_.remove(y)
        if texts_definitely_differ(x, y, vocab):
            opq.discard(x)
            opq.discard(y)
    clear = [a for a in allA if a not in opq]
    # search for an assignment of the clear atoms under which both formulas are determined and differ. Depth-first
    # with three-valued evaluation of the partial assignment: a branch is cut as soon as both formulas are
    # determined (equal: nothing below can separate them; different: a witness). Atoms that distinguish the two
    # sides come first.
    order = [a for a in clear if (a in Af) != (a in Ag)] + [a for a in clear if a in Af and a in Ag]
    base = {a: None for a in opq}
    budget = [200000]
    exhausted = [False]

    def dfs(i, val):
        budget[0] -= 1
        if budget[0] < 0:
            exhausted[0] = True
            return None
        x, y = ev3(f, val), ev3(g, val)
        if x is not None and y is not None:
            return dict(val) if x != y else None
        if i == len(order):
            return None
        a = order[i]
        for b in (True, False):
            val[a] = b
            if guards.thresholds_consistent({k: v for k, v in val.items() if v is not None}):
                w = dfs(i + 1, val)
                if w is not None:
                    return w
        val[a] = None
        return None
    v0 = dict(base)
    for a in order:
        v0[a] = None
    w = dfs(0, v0)
    if w is not None:
        return "different", {k: v for k, v in w.items() if v is not None}
    if opq or exhausted[0]:
        return "undecided", sorted(opq)[:4]
    return "same", None


_TOK = re.compile(r"'(?:[^'\\]|\\.)*'|[A-Za-z_$~@][\w:$~@]*|\d+(?:\.\d+)?|\S")


def differing_tokens(a, b):
    """tokens of a not matched in b and the other way round (longest common subsequence alignment)"""
    import difflib
    ta, tb = _TOK.findall(a), _TOK.findall(b)
    sm = difflib.SequenceMatcher(a=ta, b=tb, autojunk=False)
    da, db = [], []
    seen = set()
    for op, i1, i2, j1, j2 in sm.get_opcodes():
        if op != "equal":
            # one and the same replacement made at every occurrence of a sub-term is one edit, not many
            ch = (tuple(ta[i1:i2]), tuple(tb[j1:j2]))
            if ch in seen:
                continue
            seen.add(ch)
            da.extend(ta[i1:i2])
            db.extend(tb[j1:j2])
    return da, db


def _match_close(t, i, open_ch, close_ch):
    d = 0
    q = None
    for k in range(i, len(t)):
        ch = t[k]
        if q:
            if ch == q and t[k - 1] != "\\":
                q = None
            continue
        if ch == "'":
            q = ch
        elif ch == open_ch:
            d += 1
        elif ch == close_ch:
            d -= 1
            if d == 0:
                return k
    return -1


def _split_if(t):
    """('if', cond, then, else) for `if(c){a}{b}` covering the whole text, else None"""
    if not t.startswith("if("):
        return None
    e = _match_close(t, 2, "(", ")")
    if e < 0 or e + 1 >= len(t) or t[e + 1] != "{":
        return None
    e2 = _match_close(t, e + 1, "{", "}")
    if e2 < 0 or e2 + 1 >= len(t) or t[e2 + 1] != "{":
        return None
    e3 = _match_close(t, e2 + 1, "{", "}")
    if e3 != len(t) - 1:
        return None
    return ("if", t[3:e], t[e + 2:e2], t[e2 + 2:e3])


def leaf_differences(a, b, out):
    """pairs of differing sub-texts after descending through identical `if(c){..}{..}` and `(..)` structure"""
    if a == b:
        return
    for pre in ("V:",):
        if a.startswith(pre) and b.startswith(pre):
            a, b = a[len(pre):], b[len(pre):]
    sa, sb = _split_if(a), _split_if(b)
    if sa and sb and sa[1] == sb[1]:
        leaf_differences(sa[2], sb[2], out)
        leaf_differences(sa[3], sb[3], out)
        return
    if a.startswith("(") and b.startswith("(") and _match_close(a, 0, "(", ")") == len(a) - 1 \
            and _match_close(b, 0, "(", ")") == len(b) - 1:
        leaf_differences(a[1:-1], b[1:-1], out)
        return
    pa_, pb_ = _split_commas(a), _split_commas(b)
    if len(pa_) == len(pb_) and len(pa_) > 1:
        for x, y in zip(pa_, pb_):
            leaf_differences(x, y, out)
        return
    out.append((a, b))


def _split_commas(t):
    out, cur, d, q = [], "", 0, None
    for i, ch in enumerate(t):
        if q:
            cur += ch
            if ch == q and t[i - 1] != "\\":
                q = None
            continue
        if ch == "'":
            q = ch
        elif ch in "([{":
            d += 1
        elif ch in ")]}":
            d -= 1
        if ch == "," and d == 0:
            out.append(cur)
            cur = ""
        else:
            cur += ch
    out.append(cur)
    return out


def texts_definitely_differ(a, b, vocab):
    """two renderings of one value differ, and everything in which they differ is resolved"""
    if a == b:
        return False
    pairs = []
    leaf_differences(a, b, pairs)
    if pairs and not (len(pairs) == 1 and pairs[0] == (a, b)):
        return all(_leaf_differs(x, y, vocab) for x, y in pairs)
    return _leaf_differs(a, b, vocab)


def _leaf_differs(a, b, vocab):
    if a == b:
        return False
    da, db = differing_tokens(a, b)
    if not da and not db:
        return False
    if da.count("STOP") != db.count("STOP"):
        return True        # a for / while loop is cut short by a `break` on one side only
    chunk = " ".join(da + db)
    # a differing identifier directly followed by "(" in its text is a call; judge the names
    # a large rewrite is a restructuring, not an edit: nothing definite can be read off a long token difference;
    # neither off one that only moves the same tokens around (re-association, reordered operands)
    if len(da) > 30 or len(db) > 30:
        return False
    if sorted(x for x in da if x not in "()[]{},") == sorted(x for x in db if x not in "()[]{},"):
        return False
    # a term that was only removed (or only added) sits in a context that is the same on both sides: the loop
    # variables `~k` / `@k` inside it are the ones of that context, not unknowns of their own
    _bits = re.compile(r"^[01]{2,}$")       # the truth table of a canonical condition follows its atom list
    pure = not [t for t in da if not _bits.match(t)] or not [t for t in db if not _bits.match(t)]
    for t in da + db:
        if pure and (re.match(r"^~\d+$", t) or re.match(r"^@\d+$", t)) and t in a and t in b:
            continue
        if UNRESOLVED.search(t) or t in ("phi", "OPQ", "match") or re.match(r"^~\d*$", t) or t.startswith("@"):
            return False
        if re.match(r"^[A-Z][A-Z0-9_]{2,}$", t) and t not in BUILTIN and not t.startswith("IS_"):
            return False           # a constant referred to by name: its value is not in the text
        if re.match(r"^[A-Za-z_][\w:]*$", t) and not t.isupper() and t not in vocab and \
                t.rsplit("::", 1)[-1] not in vocab and t.rsplit("::", 1)[-1] not in EXTERNAL and re.search(re.escape(t) + r"\(", a + " " + b):
            return False
    return True



def if_expansions(t):
    """texts obtained from t by replacing its (single) `if(c){a}{b}` term by each branch value; None unless t has
    exactly one such term"""
    idx = [m.start() for m in re.finditer(r"(?<![A-Za-z0-9_])if\(", t)]
    if len(idx) != 1:
        return None
    i = idx[0]
    e = _match_close(t, i + 2, "(", ")")
    if e < 0 or e + 1 >= len(t) or t[e + 1] != "{":
        return None
    e2 = _match_close(t, e + 1, "{", "}")
    if e2 < 0 or e2 + 1 >= len(t) or t[e2 + 1] != "{":
        return None
    e3 = _match_close(t, e2 + 1, "{", "}")
    if e3 < 0:
        return None
    a, b = t[e + 2:e2], t[e2 + 2:e3]
    return [(t[:i] + a + t[e3 + 1:], a), (t[:i] + b + t[e3 + 1:], b)]


def phi_expansions(t):
    """texts obtained from t by replacing its (single) `phi(a|b|..)` term by each alternative; None unless t has
    exactly one phi term"""
    i = t.find("phi(")
    if i < 0 or t.find("phi(", i + 1) >= 0 or (i > 0 and (t[i - 1].isalnum() or t[i - 1] == "_")):
        return None
    e = _match_close(t, i + 3, "(", ")")
    if e < 0:
        return None
    inner = t[i + 4:e]
    alts, d, q, cur = [], 0, None, ""
    for k, ch in enumerate(inner):
        if q:
            cur += ch
            if ch == q and inner[k - 1] != "\\":
                q = None
            continue
        if ch == "'":
            q = ch
        elif ch in "([{":
            d += 1
        elif ch in ")]}":
            d -= 1
        if ch == "|" and d == 0:
            alts.append(cur)
            cur = ""
        else:
            cur += ch
    alts.append(cur)
    if len(alts) < 2:
        return None
    return [(t[:i] + a + t[e + 1:], a) for a in alts]


# ---------------------------------------------------------------------------
# how much of a function was rewritten

_UNITS = {}
REWRITE_LIMIT = 10


def rewritten(F, path):
    """(changed units, note) when the function (or a crate-local function it calls directly) differs from the
    reviewed version in more than REWRITE_LIMIT simple statements / conditions: a restructuring. A syntactic
    comparison with the reference says nothing reliable about a restructured function."""
    import hashlib
    import json
    import os
    from .facts import units, unit_distance, walk
    if "ref" not in _UNITS:
        p = os.path.join(os.path.dirname(os.path.dirname(os.path.abspath(__file__))), "spec", "units.json")
        _UNITS["ref"] = json.load(open(p))["functions"] if os.path.exists(p) else {}
    ref = _UNITS["ref"]
    key = id(F)
    cur = _UNITS.setdefault(("cur", key), {})

    def cur_units(pth):
        if pth not in cur:
            b = F.body_by_path.get(pth)
            cur[pth] = [hashlib.sha1(u.encode()).hexdigest()[:10] for u in units(b["body"])] \
                if b is not None and "body" in b else None
        return cur[pth]
    b0 = F.body_by_path.get(path)
    fns = [path]
    if b0 is not None and "body" in b0:
        for n in walk(b0["body"]):
            if n.get("k") in ("call", "mcall"):
                cal = n.get("inst") or n.get("f") or ""
                if cal in ref and cal not in fns:
                    fns.append(cal)
    worst = 0
    who = None
    for fn in fns:
        cu = cur_units(fn)
        if cu is None or fn not in ref:
            continue
        ch, _ = unit_distance(ref[fn], cu)
        if ch > worst:
            worst, who = ch, fn
    if worst > REWRITE_LIMIT:
        return worst, who
    return 0, None
