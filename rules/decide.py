"""When may a difference from a reviewed reference be reported?

The reference rules (U6, U7, E1, V4) compare what the extractor reads from the current source with what it read from
the reviewed tree. A difference is a *violation* only when it is expressible in vocabulary both sides share: then
there is an input class on which the two programs provably behave differently. When the differing parts contain
terms the extractor could not resolve to the function's inputs (a construct it does not interpret, a helper that did
not exist when the reference was reviewed, an unresolved local), the two texts may well be two spellings of one
condition: equivalence is *undecided*, and undecided is reported as a note, never as a violation.

`opaque(text, vocab)` says whether an atom / template piece contains such a term; `definite_difference` evaluates two
formulas in three-valued logic with the opaque atoms unknown and looks for an assignment of the shared, interpretable
atoms under which both formulas are determined and differ."""
import itertools
import re
from . import guards

UNRESOLVED = re.compile(r"(?<![\w$])(?:[slmev]_[0-9a-f]{7}|c\d_\d+\w*)\b|~|\bphi\(|\bOPQ\(|\bmatch\(|\|\.\.\||\?")
IDENT_CALL = re.compile(r"([A-Za-z_][A-Za-z0-9_]*(?:::[A-Za-z_][A-Za-z0-9_]*)*)\(")
# predicate / constructor names of the atom language itself and of std methods the extractors interpret
BUILTIN = {"GE", "GT", "GT2", "LE", "LT", "EQ", "EQ2", "NE", "IN", "HAS", "STARTS_WITH", "ENDS_WITH", "ALL", "ANY",
           "SOME", "OK", "CALLOK", "PARSES", "P", "OPQ", "LOOPOK", "LOOPEXIT", "LOOPO", "val", "len", "fmt", "new",
           "if", "abs", "Some", "Ok", "Err", "None", "IF", "FOR", "ELSE", "not", "and", "or"}


# deterministic std methods: `f(x)` with such an f is a definite function of x, not a possible re-spelling of an
# unrelated condition (a crate-local helper that the reference never saw is)
STD = set("""len is_empty chars bytes lines split splitn rsplit split_once rsplit_once split_at split_whitespace find
rfind contains starts_with ends_with strip_prefix strip_suffix trim trim_start trim_end trim_matches
trim_start_matches trim_end_matches to_uppercase to_lowercase to_ascii_uppercase to_ascii_lowercase to_string
to_owned as_str as_ref as_deref clone cloned copied parse get first last nth next peek iter into_iter enumerate skip
take rev zip chain map filter filter_map flat_map flatten any all count sum min max position rposition find_map fold
collect unwrap unwrap_or unwrap_or_default unwrap_or_else expect ok err ok_or ok_or_else and_then or_else is_some
is_none is_ok is_err is_some_and is_none_or map_or map_or_else abs round floor ceil trunc fract powi powf sqrt
is_nan is_finite is_infinite to_digit is_ascii_digit is_ascii_alphabetic is_ascii_alphanumeric is_ascii_uppercase
is_ascii_lowercase is_alphabetic is_numeric is_alphanumeric is_uppercase is_lowercase is_whitespace is_ascii
is_char_boundary char_indices join concat repeat replace replacen format push push_str insert extend retain sort
sort_by sort_by_key dedup truncate clear remove pop contains_key keys values entry or_default or_insert
or_insert_with from into try_from try_into year month day hour minute second format_with_items naive_local date
and_hms_opt from_ymd_opt from_hms_opt parse_from_str with_year eq ne lt le gt ge cmp partial_cmp not default new
with_capacity capacity downcast_ref type_id""".split())


def vocabulary(reference_texts):
    """identifiers used as function / method names anywhere in the reviewed reference"""
    v = set(BUILTIN) | STD
    for t in reference_texts:
        for m in IDENT_CALL.finditer(t):
            name = m.group(1)
            v.add(name)
            v.add(name.rsplit("::", 1)[-1])
    return v


def opaque(text, vocab):
    if UNRESOLVED.search(text):
        return True
    for m in IDENT_CALL.finditer(text):
        name = m.group(1)
        if name.isupper() or name.startswith("IS_"):
            continue
        if name not in vocab and name.rsplit("::", 1)[-1] not in vocab:
            return True
    return False


def ev3(f, val):
    """Kleene evaluation; val maps atom -> True / False / None"""
    t = f[0]
    if t == "T":
        return True
    if t == "F":
        return False
    if t == "atom":
        return val.get(f[1])
    if t == "not":
        x = ev3(f[1], val)
        return None if x is None else (not x)
    if t == "and":
        a, b = ev3(f[1], val), ev3(f[2], val)
        if a is False or b is False:
            return False
        if a is None or b is None:
            return None
        return True
    if t == "or":
        a, b = ev3(f[1], val), ev3(f[2], val)
        if a is True or b is True:
            return True
        if a is None or b is None:
            return None
        return False
    return None


def definite_difference(f, g, vocab, limit=16):
    """(verdict, info): verdict in 'same' | 'different' | 'undecided'"""
    Af, Ag = guards.atoms_of(f), guards.atoms_of(g)
    allA = sorted(Af | Ag)
    # an opaque atom that occurs on both sides is the same (uninterpreted) condition on both sides: an ordinary
    # atom. Only opaque atoms private to one side can be another spelling of something on the other side.
    opq = {a for a in allA if opaque(a, vocab) and not (a in Af and a in Ag)}
    clear = [a for a in allA if a not in opq]
    if len(clear) > limit:
        # keep the atoms that differ plus as many shared ones as fit; the rest become unknown
        diff = [a for a in clear if (a in Af) != (a in Ag)]
        shared = [a for a in clear if a in Af and a in Ag]
        keep = (diff + shared)[:limit]
        opq |= set(clear) - set(keep)
        clear = keep
    for bits in itertools.product([False, True], repeat=len(clear)):
        val = dict(zip(clear, bits))
        if not guards.thresholds_consistent(val):
            continue
        for a in opq:
            val[a] = None
        x, y = ev3(f, val), ev3(g, val)
        if x is not None and y is not None and x != y:
            return "different", {k: v for k, v in val.items() if v is not None}
    if opq:
        return "undecided", sorted(opq)[:4]
    return "same", None
