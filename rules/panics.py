"""A7 / P-rules: panic ledger. A small path-sensitive abstract interpretation over the structured HIR:
per place (local / field path) it tracks a lower bound of the byte length, ASCII-ness, Some/Ok-ness and
whether a local is a character-boundary position obtained from a search on a given base."""
import re
from .common import Finding
from .facts import walk, is_call, lit_val, peel, callee, CN_INIT
from .facts import place_str as _place_str


def place_str(n):
    """place of a local / field path; an element selected by a literal index (`lines[0]`) is a place too, an element
    selected by a computed index is not"""
    from .facts import peel as _peel, lit_val as _lit
    x = _peel(n)
    parts = []
    while isinstance(x, dict):
        k = x.get("k")
        if k == "field":
            parts.append("." + x["name"])
            x = _peel(x["e"])
        elif k == "local":
            parts.append(x["name"])
            return "".join(reversed(parts)).replace("..", ".")
        elif k == "index":
            v = _lit(_peel(x.get("i"))) if isinstance(x.get("i"), dict) else None
            if not isinstance(v, int) or isinstance(v, bool):
                return None
            parts.append("[%d]" % v)
            x = _peel(x["e"])
        elif k == "mcall" and x.get("m") in ("unwrap", "expect", "unwrap_or_default"):
            x = _peel(x["recv"])
        else:
            return None
    return None

from . import grammar as G
from .callgraph import CallGraph

STR_TYS = ("str", "std::string::String")


def is_str_ty(t):
    t = (t or "").lstrip("&").replace("mut ", "").strip()
    while t.startswith("&"):
        t = t[1:].strip()
    t = re.sub(r"^'[a-z_]+ ", "", t)
    return t in STR_TYS


class Facts_:
    """facts about one place"""
    __slots__ = ("minlen", "ascii", "digits", "some", "eqlen")

    def __init__(self, minlen=0, ascii=False, digits=False, some=False):
        self.minlen = minlen
        self.ascii = ascii
        self.digits = digits
        self.some = some

    def copy(self):
        return Facts_(self.minlen, self.ascii, self.digits, self.some)

    def meet(self, o):
        return Facts_(min(self.minlen, o.minlen), self.ascii and o.ascii, self.digits and o.digits,
                      self.some and o.some)


class Env:
    def __init__(self, f=None, pos=None, prefix=None, alias=None, iters=None, nth=None):
        self.f = f or {}           # place -> Facts_
        self.pos = pos or {}       # local id -> (base place, kind)
        self.prefix = prefix or {}  # place -> set of proven prefix byte lengths (boundaries)
        self.alias = alias or {}   # local id -> boolean expression it names
        self.iters = iters or {}   # local id -> [base place of a chars() iterator, number of next() calls seen]
        self.nth = nth or {}       # local id -> (base place, n): the n-th char (Option) of base
        self.chof = {}             # local id of a char -> local id of its char_indices position
        self.suffix = {}           # place -> set of proven suffix byte lengths (boundaries from the end)
        self.lastof = {}           # local id of a char -> place whose last char it is
        self.taken = set()         # (base place, range text): this very slice was taken before on this path

    def copy(self):
        e = Env({k: v.copy() for k, v in self.f.items()}, dict(self.pos),
                {k: set(v) for k, v in self.prefix.items()}, dict(self.alias),
                {k: list(v) for k, v in self.iters.items()}, dict(self.nth))
        e.chof = dict(self.chof)
        e.suffix = {k: set(v) for k, v in self.suffix.items()}
        e.lastof = dict(self.lastof)
        e.taken = set(self.taken)
        return e

    def get(self, p):
        return self.f.get(p) or Facts_()

    def upd(self, p, **kw):
        if p is None:
            return
        x = self.f.get(p)
        x = x.copy() if x else Facts_()
        for k, v in kw.items():
            if k == "minlen":
                x.minlen = max(x.minlen, v)
            else:
                setattr(x, k, v or getattr(x, k))
        self.f[p] = x

    def meet(self, o):
        e = Env()
        for k in set(self.f) & set(o.f):
            e.f[k] = self.f[k].meet(o.f[k])
        for k in set(self.pos) & set(o.pos):
            if self.pos[k] == o.pos[k]:
                e.pos[k] = self.pos[k]
        for k in set(self.prefix) & set(o.prefix):
            e.prefix[k] = self.prefix[k] & o.prefix[k]
        e.alias = {k: v for k, v in self.alias.items() if k in o.alias}
        e.iters = {k: [v[0], max(v[1], o.iters[k][1])] for k, v in self.iters.items()
                   if k in o.iters and o.iters[k][0] == v[0]}
        e.nth = {k: v for k, v in self.nth.items() if o.nth.get(k) == v}
        e.chof = {k: v for k, v in self.chof.items() if o.chof.get(k) == v}
        e.suffix = {k: v & o.suffix[k] for k, v in self.suffix.items() if k in o.suffix}
        e.lastof = {k: v for k, v in self.lastof.items() if o.lastof.get(k) == v}
        e.taken = self.taken & o.taken
        return e

    def forget(self, p):
        self.taken = {t for t in self.taken if p not in t[1] and t[0] != p and not t[0].startswith(p + ".")
                      and not t[0].startswith(p + "[")}
        for k in list(self.f):
            if k.startswith(p + "["):
                del self.f[k]
                self.prefix.pop(k, None)
                continue
            if k == p or k.startswith(p + "."):
                a = self.f[k].ascii
                self.f[k] = Facts_(ascii=a)
        self.prefix.pop(p, None)
        self.suffix.pop(p, None)


ASCII_CHAR_PREDS = ("is_ascii_digit", "is_ascii_alphabetic", "is_ascii_alphanumeric", "is_ascii_uppercase",
                    "is_ascii_lowercase", "is_ascii", "is_ascii_hexdigit", "is_ascii_punctuation",
                    "is_ascii_graphic", "is_ascii_whitespace")


def diverges(n):
    """does this branch always leave (return / continue / break / panic)?"""
    if n is None:
        return False
    k = n.get("k")
    if k in ("ret", "continue", "break"):
        return True
    if k == "block":
        for s in n.get("stmts") or []:
            if diverges(s):
                return True
        return diverges(n.get("expr")) if n.get("expr") is not None else False
    if k == "if":
        return n.get("else") is not None and diverges(n["then"]) and diverges(n["else"])
    if k == "match":
        arms = n.get("arms") or []
        return bool(arms) and all(diverges(a["body"]) for a in arms)
    if k == "call" and re.search(r"panicking::|rt::begin_panic|rt::panic", n.get("f") or ""):
        return True
    return False


class Site:
    def __init__(self, kind, fn, node, text, verdict, why):
        self.kind = kind
        self.fn = fn
        self.node = node
        self.text = text
        self.verdict = verdict
        self.why = why


def expr_text(n, depth=0):
    """stable, line-free rendering of small expressions for finding keys"""
    if n is None or depth > 6:
        return "_"
    if not isinstance(n, dict):
        return "_"
    k = n.get("k")
    if k == "local":
        nm = n["name"]
        if nm.startswith("s_") and nm in CN_INIT and depth < 4:
            # an immutable binding of a pure expression reads as that expression (let introduction / removal
            # does not change the text)
            init = CN_INIT[nm]
            t = expr_text(init, depth + 2)
            pk = peel(init).get("k") if isinstance(peel(init), dict) else None
            return "(%s)" % t if pk in ("bin", "un", "cast", "if", "match") else t
        return nm
    if k == "lit":
        return repr(n.get("v")) if n.get("t") == "str" else str(n.get("v"))
    if k == "field":
        return expr_text(n["e"], depth + 1) + "." + n["name"]
    if k == "ref":
        return expr_text(n["e"], depth + 1)
    if k == "un":
        return n["op"] + expr_text(n["e"], depth + 1)
    if k == "bin":
        return "%s%s%s" % (expr_text(n["l"], depth + 1), n["op"], expr_text(n["r"], depth + 1))
    if k == "mcall":
        return "%s.%s(%s)" % (expr_text(n["recv"], depth + 1), n["m"],
                              ",".join(expr_text(a, depth + 1) for a in n.get("args") or []))
    if k == "call":
        return "%s(%s)" % ((n.get("f") or "?").rsplit("::", 1)[-1],
                           ",".join(expr_text(a, depth + 1) for a in n.get("args") or []))
    if k == "index":
        return "%s[%s]" % (expr_text(n["e"], depth + 1), expr_text(n["i"], depth + 1))
    if k == "struct":
        p = (n.get("path") or "").rsplit("::", 1)[-1]
        fs = {f["name"]: expr_text(f["e"], depth + 1) for f in n.get("fields") or []}
        if p in ("Range",):
            st = fs.get("start", "")
            return "%s..%s" % ("" if st == "0" else st, fs.get("end", ""))
        if p == "RangeFrom":
            return "%s.." % fs.get("start", "")
        if p == "RangeTo":
            return "..%s" % fs.get("end", "")
        if p == "RangeInclusive":
            return "%s..=%s" % (fs.get("start", ""), fs.get("end", ""))
        if p == "RangeFull":
            return ".."
        return p
    if k == "call" and n.get("ctor"):
        return (n.get("f") or "").rsplit("::", 1)[-1]
    if k == "try":
        return expr_text(n["e"], depth + 1) + "?"
    if k == "cast":
        return expr_text(n["e"], depth + 1)
    if k == "closure":
        return "|..|"
    if k == "block":
        return expr_text(n.get("expr"), depth + 1) if not n.get("stmts") else "{..}"
    return k or "_"


class Interp:
    def __init__(self, F, body, summaries, ledger):
        self.F = F
        self.b = body
        self.sum = summaries
        self.ledger = ledger
        self.params = {}
        for i, p in enumerate(body.get("params") or []):
            if p.get("k") == "bind":
                self.params[p["id"]] = i
        self.ok_facts = []   # facts of param0 at Ok exits (for summaries)
        self.true_envs = []  # environments at `true` exits of a bool fn

    # ---- conditions --------------------------------------------------------
    def apply(self, c, pol, env):
        """refine env assuming condition c evaluates to pol"""
        if not isinstance(c, dict):
            return env
        k = c.get("k")
        if k == "un" and c.get("op") == "!":
            return self.apply(c["e"], not pol, env)
        if k == "block" and not c.get("stmts") and c.get("expr") is not None:
            return self.apply(c["expr"], pol, env)
        if k == "local" and c.get("id") in env.alias:
            return self.apply(env.alias[c["id"]], pol, env)
        if k == "bin" and c.get("op") == "&&":
            if pol:
                env = self.apply(c["l"], True, env)
                return self.apply(c["r"], True, env)
            a = self.apply(c["l"], False, env.copy())
            b2 = self.apply(c["r"], False, self.apply(c["l"], True, env.copy()))
            return self.join_onto(env, a, b2)
        if k == "bin" and c.get("op") == "||":
            if not pol:
                env = self.apply(c["l"], False, env)
                return self.apply(c["r"], False, env)
            a = self.apply(c["l"], True, env.copy())
            b2 = self.apply(c["r"], True, self.apply(c["l"], False, env.copy()))
            return self.join_onto(env, a, b2)
        # whatever the outcome of a leaf condition: the text slices inside it were taken without a panic, so their
        # constant bounds are boundaries inside their texts for everything that follows
        if not (k == "bin" and c.get("op") in ("&&", "||")):
            self.slices_taken(c, env)
        if k == "bin" and c.get("op") in ("<", "<=", ">", ">=", "==", "!="):
            l, r_, op = c["l"], c["r"], c["op"]
            lp = self.len_of(l)
            rp = self.len_of(r_)
            kl = self.const(r_, env)
            if lp is None and rp is not None:
                # mirror
                lp, kl = rp, self.const(l, env)
                op = {"<": ">", ">": "<", "<=": ">=", ">=": "<=", "==": "==", "!=": "!="}[op]
            if lp is not None and isinstance(kl, int):
                if not pol:
                    op = {"<": ">=", "<=": ">", ">": "<=", ">=": "<", "==": "!=", "!=": "=="}[op]
                if op == ">=":
                    env.upd(lp, minlen=kl)
                elif op == ">":
                    env.upd(lp, minlen=kl + 1)
                elif op == "==":
                    env.upd(lp, minlen=kl)
                return env
            for a, b2 in ((l, r_), (r_, l)):
                nb = self.nth_base(a, env)
                v = lit_val(peel(b2))
                if nb and isinstance(peel(a), dict) and peel(a).get("k") == "local" and isinstance(v, str) \
                        and len(v) == 1 and ord(v) < 128 and ((op == "==") == pol) and c.get("lt") == "char":
                    env.upd("%s#%d" % nb, ascii=True)
                    self.char_known(nb, env)
            for a, b2 in ((l, r_), (r_, l)):
                la = peel(a)
                v = lit_val(peel(b2))
                if isinstance(la, dict) and la.get("k") == "local" and la["id"] in env.chof and isinstance(v, str) \
                        and len(v) == 1 and ord(v) < 128 and ((op == "==") == pol):
                    iid = env.chof[la["id"]]
                    p0 = env.pos.get(iid)
                    if p0:
                        env.pos[iid] = (p0[0], "find", 1, repr(v))
            # chars().next() == Some('x') style prefix tests
            for a, b2 in ((l, r_), (r_, l)):
                pa = self.first_char_of(a)
                ch = self.some_char_lit(b2)
                if pa is not None and ch is not None and ((op == "==") == pol):
                    if ord(ch) < 128:
                        env.upd(pa, minlen=1)
                        env.prefix.setdefault(pa, set()).add(1)
                # `let c = it.next(); .. c == Some('/')`: c is the n-th char of the iterated text
                la = peel(a)
                if ch is not None and ord(ch) < 128 and ((op == "==") == pol) and isinstance(la, dict) and \
                        la.get("k") == "local" and la.get("id") in env.nth:
                    nb_ = env.nth[la["id"]]
                    env.upd("%s#%d" % nb_, ascii=True, digits=ch.isdigit())
                    self.char_known(nb_, env)
                # `s.chars().nth(k) == Some('/')` written out (k >= 1; k = 0 is the `next()` case above)
                if ch is not None and ord(ch) < 128 and ((op == "==") == pol) and isinstance(la, dict) and \
                        la.get("k") == "mcall" and la.get("m") == "nth":
                    nb_ = self.nth_base(la, env)
                    if nb_:
                        env.upd("%s#%d" % nb_, ascii=True, digits=ch.isdigit())
                        self.char_known(nb_, env)
            return env
        if k == "mcall":
            m = c.get("m")
            rp = place_str(c.get("recv"))
            if m == "is_ascii" and pol and rp:
                env.upd(rp, ascii=True)
            elif m == "is_empty" and not pol and rp:
                env.upd(rp, minlen=1)
            elif m in ("is_some", "is_ok") and pol and rp:
                env.upd(rp, some=True)
            elif m in ("is_none", "is_err") and not pol and rp:
                env.upd(rp, some=True)
            elif m in ("starts_with",) and pol and rp:
                a = peel((c.get("args") or [None])[0])
                v = lit_val(a)
                if isinstance(v, str) and v and all(ord(ch) < 128 for ch in v):
                    env.upd(rp, minlen=len(v))
                    env.prefix.setdefault(rp, set()).add(len(v))
            elif m in ("starts_with",) and pol and not rp:
                # `s[a..].starts_with("L")` (a constant): the tail from a begins with the ASCII text L, so a + len(L) is
                # a boundary inside s
                rv = peel(c.get("recv"))
                v = lit_val(peel((c.get("args") or [None])[0]))
                if isinstance(rv, dict) and rv.get("k") == "index" and is_str_ty(rv.get("bt")) and \
                        isinstance(v, str) and v and all(ord(ch) < 128 for ch in v):
                    base = place_str(rv.get("e"))
                    a_, b_ = self.range_consts(rv.get("i"), env)
                    if base and isinstance(a_, int) and not isinstance(a_, bool) and b_ == "end":
                        env.upd(base, minlen=a_ + len(v))
                        env.prefix.setdefault(base, set()).add(a_ + len(v))
            elif m == "is_some_and" and pol:
                # `s.chars().next().is_some_and(|c| c.is_ascii_digit())`: that char exists and is ASCII
                nb = self.nth_base(c.get("recv"), env)
                cl = (c.get("args") or [None])[0]
                if nb and self.closure_ascii_only(cl):
                    env.upd("%s#%d" % nb, ascii=True, digits=self.closure_digits_only(cl))
                    self.char_known(nb, env)
            elif m == "all" and pol:
                base = self.chars_base(c.get("recv"))
                cl = (c.get("args") or [None])[0]
                if base and self.closure_ascii_only(cl):
                    env.upd(base, ascii=True, digits=self.closure_digits_only(cl))
            elif m == "ends_with" and pol and rp:
                v = lit_val(peel((c.get("args") or [None])[0]))
                if isinstance(v, str) and v and all(ord(ch) < 128 for ch in v):
                    env.upd(rp, minlen=len(v))
                    env.suffix.setdefault(rp, set()).add(len(v))
            elif m in ASCII_CHAR_PREDS and pol:
                lr = peel(c.get("recv"))
                if isinstance(lr, dict) and lr.get("k") == "local" and lr["id"] in env.lastof:
                    b0 = env.lastof[lr["id"]]
                    env.upd(b0, minlen=1)
                    env.suffix.setdefault(b0, set()).add(1)
                # a char value tested with an ASCII predicate: remember it by its text
                key = place_str(c.get("recv")) or expr_text(c.get("recv"))
                env.upd(key, ascii=True, digits=(m == "is_ascii_digit"))
                nb = self.nth_base(c.get("recv"), env)
                if nb:
                    env.upd("%s#%d" % nb, ascii=True, digits=(m == "is_ascii_digit"))
                    self.char_known(nb, env)
        if k in ("call", "mcall") and pol:
            ps_ = self.sum.get("pred:" + callee(c))
            if ps_:
                args = list(c.get("args") or [])
                if k == "mcall":
                    args = [c.get("recv")] + args
                p0 = place_str(args[0]) if args else None
                if p0:
                    env.upd(p0, minlen=ps_.get("minlen", 0), ascii=ps_.get("ascii", False))
                    for x in ps_.get("prefix", ()):
                        env.prefix.setdefault(p0, set()).add(x)
                    if ps_.get("first_digit"):
                        env.upd(p0 + "#0", digits=True, ascii=True)
        if k == "letx":
            self.bind_let(c["pat"], c["init"], env, cond=True)
        return env

    def slices_taken(self, c, env):
        st = [c]
        while st:
            n = st.pop()
            if isinstance(n, list):
                st.extend(n)
                continue
            if not isinstance(n, dict) or n.get("k") == "closure":
                continue
            if n.get("k") == "index" and is_str_ty(n.get("bt")):
                base = place_str(n.get("e"))
                if base:
                    env.taken.add((base, expr_text(n.get("i"))))
                    a, b_ = self.range_consts(n.get("i"), env)
                    for v_ in (a, b_):
                        if isinstance(v_, int) and not isinstance(v_, bool) and v_ > 0:
                            env.prefix.setdefault(base, set()).add(v_)
                            env.upd(base, minlen=v_)
            st.extend(v for kk, v in n.items() if isinstance(v, (dict, list)) and kk not in ("pat", "pats"))

    def join_onto(self, env, a, b2):
        """facts that hold in both refinements a and b2 are added to env"""
        m = a.meet(b2)
        for k2, v in m.f.items():
            env.upd(k2, minlen=v.minlen, ascii=v.ascii, digits=v.digits, some=v.some)
        for k2, v in m.prefix.items():
            env.prefix.setdefault(k2, set()).update(v)
        return env

    def closure_ascii_only(self, cl):
        if not isinstance(cl, dict) or cl.get("k") != "closure":
            # fn reference: char::is_ascii_digit
            if isinstance(cl, dict) and cl.get("k") == "def":
                return (cl.get("def") or "").rsplit("::", 1)[-1] in ASCII_CHAR_PREDS
            return False
        return self._ascii_expr(cl["body"])

    def _ascii_expr(self, e):
        e = e
        while isinstance(e, dict) and e.get("k") == "block" and not e.get("stmts"):
            e = e.get("expr")
        if not isinstance(e, dict):
            return False
        if e.get("k") == "bin" and e.get("op") == "||":
            return self._ascii_expr(e["l"]) and self._ascii_expr(e["r"])
        if e.get("k") == "bin" and e.get("op") == "&&":
            return self._ascii_expr(e["l"]) or self._ascii_expr(e["r"])
        if e.get("k") == "mcall":
            if e.get("m") in ASCII_CHAR_PREDS:
                return True
            if e.get("m") == "contains":
                # CONST.contains(c) with an ASCII constant
                v = lit_val(peel(e["recv"]))
                if isinstance(v, str) and all(ord(ch) < 128 for ch in v):
                    return True
        if e.get("k") == "bin" and e.get("op") == "==":
            for s in (e["l"], e["r"]):
                v = lit_val(peel(s))
                if isinstance(v, str) and len(v) == 1 and ord(v) < 128:
                    return True
        if e.get("k") == "match":
            return False
        return False

    def closure_digits_only(self, cl):
        if isinstance(cl, dict) and cl.get("k") == "closure":
            e = cl["body"]
            while isinstance(e, dict) and e.get("k") == "block" and not e.get("stmts"):
                e = e.get("expr")
            return isinstance(e, dict) and e.get("k") == "mcall" and e.get("m") == "is_ascii_digit"
        return False

    def chars_base(self, n):
        n = n
        if isinstance(n, dict) and n.get("k") == "mcall" and n.get("m") in ("chars", "bytes"):
            return place_str(n["recv"])
        return None

    def first_char_of(self, n):
        n = peel(n)
        if isinstance(n, dict) and n.get("k") == "mcall" and n.get("m") == "next":
            return self.chars_base(n["recv"])
        return None

    def nth_base(self, n, env):
        """(base place, n) if n denotes the n-th char of a base (through unwrap / let-bound Option)"""
        n = peel(n)
        while isinstance(n, dict) and n.get("k") == "mcall" and n.get("m") in ("unwrap", "expect"):
            n = peel(n["recv"])
        if isinstance(n, dict) and n.get("k") == "local" and n["id"] in env.nth:
            return env.nth[n["id"]]
        if isinstance(n, dict) and n.get("k") == "mcall" and n.get("m") == "nth" and \
                isinstance(n.get("recv"), dict) and n["recv"].get("m") == "chars":
            b0 = self.chars_base(n["recv"])
            kk = lit_val(peel((n.get("args") or [None])[0]))
            if b0 and isinstance(kk, int) and not isinstance(kk, bool) and 0 <= kk < 8:
                return (b0, kk)        # `s.chars().nth(k)` written out
        if isinstance(n, dict) and n.get("k") == "mcall" and n.get("m") == "next":
            b0 = self.chars_base(n["recv"])
            if b0:
                return (b0, 0)
            it = peel(n["recv"])
            if isinstance(it, dict) and it.get("k") == "local" and it["id"] in env.iters:
                return (env.iters[it["id"]][0], env.iters[it["id"]][1])
        return None

    def char_known(self, nb, env):
        """the n-th char of base is ASCII: if chars 0..n are all known ASCII, n+1 is a boundary and len > n"""
        base, n = nb
        if all(env.get("%s#%d" % (base, i)).ascii for i in range(n + 1)):
            env.upd(base, minlen=n + 1)
            env.prefix.setdefault(base, set()).add(n + 1)

    def some_char_lit(self, n):
        n = peel(n)
        if isinstance(n, dict) and n.get("k") == "call" and (n.get("f") or "").endswith("::Some"):
            v = lit_val((n.get("args") or [None])[0])
            if isinstance(v, str) and len(v) == 1:
                return v
        return None

    def len_of(self, n):
        n = peel(n)
        if isinstance(n, dict) and n.get("k") == "mcall" and n.get("m") == "len" and not n.get("args"):
            if is_str_ty(n.get("rt")) or "Vec<" in (n.get("rt") or "") or "[" in (n.get("rt") or ""):
                return place_str(n["recv"])
        return None

    def const(self, n, env):
        n = peel(n)
        v = lit_val(n)
        if isinstance(v, int) and not isinstance(v, bool):
            return v
        if isinstance(n, dict) and n.get("k") == "local" and n["id"] in self.params:
            return ("param", self.params[n["id"]])
        if isinstance(n, dict) and n.get("k") == "def" and n.get("dk") in ("const", "assoc_const"):
            cb = self.F.body_by_path.get(n.get("def"))
            if cb is not None and "body" in cb:
                x = cb["body"]
                while isinstance(x, dict) and x.get("k") == "block" and not x.get("stmts"):
                    x = x.get("expr")
                v = lit_val(x)
                if isinstance(v, int):
                    return v
        return None

    # ---- value facts -----------------------------------------------------
    def facts_of(self, e, env):
        """Facts_ of the value of expression e (strings)"""
        e0 = e
        e = peel(e)
        if not isinstance(e, dict):
            return Facts_()
        k = e.get("k")
        if k in ("local", "field"):
            p = place_str(e)
            return env.get(p).copy() if p else Facts_()
        if k == "try":
            return self.facts_of(e["e"], env)
        if k == "index" and is_str_ty(e.get("bt")):
            base = place_str(e["e"])
            bf = env.get(base) if base else Facts_()
            a, b_ = self.range_consts(e["i"], env)
            f = Facts_(ascii=bf.ascii, digits=bf.digits)
            if isinstance(a, int) and isinstance(b_, int) and b_ >= a:
                f.minlen = b_ - a
            elif isinstance(a, int) and b_ == "end":
                f.minlen = max(0, bf.minlen - a)
            return f
        if k == "mcall":
            m = e.get("m")
            if m in ("trim", "trim_start", "trim_end", "trim_matches", "trim_start_matches", "trim_end_matches",
                     "to_uppercase", "to_lowercase"):
                f = self.facts_of(e["recv"], env)
                return Facts_(ascii=f.ascii, digits=f.digits)
            if m in ("unwrap", "expect", "unwrap_or_default"):
                return self.facts_of(e["recv"], env)
            if m in ("first", "last", "get", "next", "nth", "peek"):
                f = self.facts_of(e["recv"], env)
                return Facts_(ascii=f.ascii, digits=f.digits)
            if m in ("lines", "split", "split_whitespace", "chars", "collect", "iter", "splitn", "rsplit",
                     "skip", "take", "enumerate", "map", "filter", "rev", "peekable", "char_indices",
                     "split_terminator"):
                f = self.facts_of(e["recv"], env)
                return Facts_(ascii=f.ascii, digits=f.digits)
        if k in ("call", "mcall"):
            s = self.sum.get(callee(e))
            if s:
                args = list(e.get("args") or [])
                if e.get("k") == "mcall":
                    args = [e.get("recv")] + args
                af = self.facts_of(args[0], env) if args else Facts_()
                f = Facts_(ascii=s.get("ascii") or af.ascii, digits=s.get("digits") or False)
                ml = s.get("minlen")
                if isinstance(ml, int):
                    f.minlen = ml
                elif isinstance(ml, tuple) and ml[0] == "param" and ml[1] < len(args):
                    v = lit_val(peel(args[ml[1]]))
                    if isinstance(v, int):
                        f.minlen = v
                if s.get("keeps_len"):
                    f.minlen = max(f.minlen, af.minlen)
                return f
        if k == "index" and not is_str_ty(e.get("bt")):
            # element of a vector of strings: inherits ascii of the collection
            base = place_str(e["e"])
            bf = env.get(base) if base else Facts_()
            return Facts_(ascii=bf.ascii, digits=bf.digits)
        if k == "fmt":
            return Facts_()
        return Facts_()

    def range_consts(self, i, env):
        """(start, end) with ints, 'end' for open upper, None for unknown"""
        if not isinstance(i, dict) or i.get("k") != "struct":
            return (None, None)
        p = (i.get("path") or i.get("t") or "")
        fs = {f["name"]: f["e"] for f in i.get("fields") or []}
        a = self.const(fs["start"], env) if "start" in fs else 0
        if p.endswith("RangeFrom"):
            return (a if isinstance(a, int) else None, "end")
        if p.endswith("RangeFull"):
            return (0, "end")
        b_ = self.const(fs["end"], env) if "end" in fs else "end"
        if p.endswith("RangeInclusive") or p.endswith("RangeToInclusive"):
            b_ = b_ + 1 if isinstance(b_, int) else None
        return (a if isinstance(a, int) else None, b_ if isinstance(b_, int) or b_ == "end" else None)

    # ---- positions -----------------------------------------------------------
    def pos_of(self, e, env, depth=0):
        """(base place, kind) if e is a char-boundary position of some base"""
        e = peel(e)
        if not isinstance(e, dict) or depth > 5:
            return None
        k = e.get("k")
        if k == "local":
            return env.pos.get(e["id"])
        if k == "try":
            return self.pos_of(e["e"], env, depth + 1)
        if k == "mcall":
            m = e.get("m")
            if m in ("find", "rfind") and is_str_ty(e.get("rt")):
                base = place_str(e["recv"])
                pat = peel((e.get("args") or [None])[0])
                if base:
                    return (base, "find", self.pat_len(pat), expr_text(pat))
                # search in a tail slice B[s..]: the result is relative to s
                rel = self.tail_slice(e["recv"], env)
                if rel:
                    return (rel[0], "rel", self.pat_len(pat), expr_text(pat), rel[1])
            s_ = self.sum.get("posfn:" + callee(e))
            if s_ and (e.get("args") or e.get("recv")):
                a0 = (e.get("args") or [None])[0] if e.get("k") == "call" else e.get("recv")
                base = place_str(a0)
                if base:
                    return (base, "bound", None, None)
                rel = self.tail_slice(a0, env)
                if rel:
                    return (rel[0], "rel", None, None, rel[1])
            if m in ("ok_or", "ok_or_else", "map_err"):
                return self.pos_of(e["recv"], env, depth + 1)
            if m in ("unwrap_or", "unwrap", "expect", "unwrap_or_else", "unwrap_or_default"):
                inner = self.pos_of(e["recv"], env, depth + 1)
                if inner and m == "unwrap_or":
                    a = (e.get("args") or [None])[0]
                    if self.len_of(a) == inner[0] or lit_val(peel(a)) == 0:
                        return (inner[0], "bound", None, None)
                    return None
                return inner
            if m == "len" and is_str_ty(e.get("rt")):
                base = place_str(e["recv"])
                if base:
                    return (base, "len", None, None)
            if m in ("min", "max"):
                a = self.pos_of(e["recv"], env, depth + 1)
                b_ = self.pos_of((e.get("args") or [None])[0], env, depth + 1)
                if a and b_ and a[0] == b_[0]:
                    return (a[0], "bound", None, None)
        if k == "call" and not e.get("ctor"):
            s_ = self.sum.get("posfn:" + callee(e))
            if s_ and e.get("args"):
                a0 = e["args"][0]
                base = place_str(a0)
                if base:
                    return (base, "bound", None, None)
                rel = self.tail_slice(a0, env)
                if rel:
                    return (rel[0], "rel", None, None, rel[1])
        if k == "bin" and e.get("op") == "+":
            for x, y in ((e["l"], e["r"]), (e["r"], e["l"])):
                px = self.pos_of(x, env, depth + 1)
                if px and px[1] == "rel":
                    # offset + relative position (+ pattern length)
                    if expr_text(peel(y)) == px[4]:
                        return (px[0], "find", px[2], px[3])
                    continue
                if px and px[1] == "find":
                    kk = lit_val(peel(y))
                    if isinstance(kk, int) and px[2] is not None and kk == px[2]:
                        return (px[0], "bound", None, None)
                    yl = peel(y)
                    if isinstance(yl, dict) and yl.get("k") == "mcall" and yl.get("m") == "len" and \
                            expr_text(yl["recv"]) == px[3]:
                        return (px[0], "bound", None, None)
        v = lit_val(e)
        if v == 0:
            return ("*", "zero", None, None)
        return None

    def tail_slice(self, n, env):
        """(base place, offset text) if n is `&B[s..]` with s a boundary of B"""
        n = peel(n)
        if isinstance(n, dict) and n.get("k") == "index" and is_str_ty(n.get("bt")):
            base = place_str(n["e"])
            i = n["i"]
            if base and isinstance(i, dict) and i.get("k") == "struct" and (i.get("path") or "").endswith("RangeFrom"):
                st = [f["e"] for f in i["fields"] if f["name"] == "start"]
                if st:
                    p = self.pos_of(st[0], env)
                    v = self.const(st[0], env)
                    if (p and (p[0] == base or p[0] == "*")) or (isinstance(v, int) and (v == 0 or v in env.prefix.get(base, set()))):
                        return (base, expr_text(peel(st[0])))
        return None

    def pat_len(self, pat):
        v = lit_val(pat)
        if isinstance(v, str):
            return len(v.encode())
        # a parameter of a private function that every caller supplies as an ASCII literal of one length
        x = peel(pat) if pat is not None else None
        if isinstance(x, dict) and x.get("k") == "local" and x.get("id") in self.params:
            lits = PARAM_LITERALS.get((self.b["path"], self.params[x["id"]]))
            if lits and all(l.isascii() for l in lits) and len({len(l) for l in lits}) == 1:
                return len(next(iter(lits)))
        return None

    # ---- bindings -------------------------------------------------------------
    def bind_let(self, pat, init, env, cond=False):
        if not isinstance(pat, dict):
            return
        k = pat.get("k")
        if k == "bind":
            name = pat["name"]
            f = self.facts_of(init, env) if init is not None else Facts_()
            env.f[name] = f
            env.prefix.pop(name, None)
            env.alias.pop(pat["id"], None)
            env.iters.pop(pat["id"], None)
            env.nth.pop(pat["id"], None)
            x = init
            while isinstance(x, dict) and x.get("k") == "block" and not x.get("stmts"):
                x = x.get("expr")
            if isinstance(x, dict):
                if (x.get("k") in ("bin", "un") or (x.get("k") == "mcall" and (x.get("t") == "bool"))) \
                        and "Mut" not in (pat.get("mode") or ""):
                    env.alias[pat["id"]] = x
                if x.get("k") == "mcall" and x.get("m") == "chars":
                    b0 = place_str(x["recv"])
                    if b0:
                        env.iters[pat["id"]] = [b0, 0]
                y = x
                while isinstance(y, dict) and y.get("k") == "mcall" and y.get("m") in ("unwrap", "expect"):
                    y = y["recv"]
                if isinstance(y, dict) and y.get("k") == "mcall" and y.get("m") == "last":
                    b0 = self.chars_base(y["recv"])
                    if b0:
                        env.lastof[pat["id"]] = b0
                if x.get("k") == "mcall" and x.get("m") == "char_indices":
                    b0 = place_str(x["recv"])
                    if b0:
                        env.iters[pat["id"]] = [b0, -1]      # -1: yields (position, char) pairs
                xn = x
                while isinstance(xn, dict) and xn.get("k") == "mcall" and xn.get("m") in ("unwrap", "expect"):
                    xn = xn["recv"]      # `let c = s.chars().next().unwrap()`: c is still the first char of s
                if isinstance(xn, dict) and xn.get("k") == "mcall" and xn.get("m") == "next":
                    x = xn
                    it = peel(x["recv"])
                    if isinstance(it, dict) and it.get("k") == "local" and it["id"] in env.iters:
                        b0, cnt = env.iters[it["id"]]
                        env.nth[pat["id"]] = (b0, cnt)
                        env.iters[it["id"]][1] = cnt + 1
                    else:
                        b0 = self.chars_base(x["recv"])
                        if b0:
                            env.nth[pat["id"]] = (b0, 0)
                # (first, rest) handled in ptup
            p = self.pos_of(init, env) if init is not None else None
            if p and p[0] != "*":
                env.pos[pat["id"]] = p
            else:
                env.pos.pop(pat["id"], None)
            # let tail = &s[pos..] with pos = s.find(T): tail starts with T
            xi = init
            while isinstance(xi, dict) and xi.get("k") == "ref":
                xi = xi.get("e")
            if isinstance(xi, dict) and xi.get("k") == "index" and is_str_ty(xi.get("bt")) and \
                    isinstance(xi.get("i"), dict) and (xi["i"].get("path") or "").endswith("RangeFrom"):
                st_ = [f_["e"] for f_ in xi["i"].get("fields") or [] if f_["name"] == "start"]
                pp_ = self.pos_of(st_[0], env) if st_ else None
                if pp_ and pp_[1] == "find" and place_str(xi["e"]) == pp_[0]:
                    s_ = env.prefix.setdefault(name, set())
                    if pp_[3]:
                        s_.add("len:" + pp_[3])
                    if isinstance(pp_[2], int):
                        s_.add(pp_[2])
            # parse_exact_length(x, k)? also proves len(x) >= k
            if init is not None:
                self.arg_effects(init, env)
        elif k == "pts" and len(pat.get("pats") or []) == 1 and pat["pats"][0].get("k") == "ptup" \
                and self.ci_base(init, env):
            base = self.ci_base(init, env)
            tp = pat["pats"][0].get("pats") or []
            for q in tp:
                self.bind_let(q, None, env, cond)
            if len(tp) == 2 and tp[0].get("k") == "bind":
                env.pos[tp[0]["id"]] = (base, "bound", None, None)
                if tp[1].get("k") == "bind":
                    env.chof[tp[1]["id"]] = tp[0]["id"]
        elif k == "pts" and len(pat.get("pats") or []) == 1:
            path = pat.get("path") or ""
            inner = pat["pats"][0]
            if path.endswith(("::Some", "::Ok")):
                src = place_str(init)
                if src and cond:
                    env.upd(src, some=True)
                if cond and path.endswith("::Some"):
                    self.strip_chain_facts(init, env)
                self.bind_let(inner, init, env, cond)
        elif k == "ptup":
            ps_ = pat.get("pats") or []
            for q in ps_:
                self.bind_let(q, None, env, cond)
            # let (first, rest) = s.split_at(pos) with pos = s.find(<ASCII literal P>): rest starts with P
            x = peel(init) if init is not None else None
            if isinstance(x, dict) and x.get("k") == "mcall" and x.get("m") == "split_at" and len(ps_) == 2 \
                    and ps_[1].get("k") == "bind":
                pp = self.pos_of((x.get("args") or [None])[0], env)
                bf = self.facts_of(x["recv"], env)
                if pp and pp[1] == "find" and pp[2]:
                    env.f[ps_[1]["name"]] = Facts_(minlen=pp[2], ascii=bf.ascii)
                    env.prefix[ps_[1]["name"]] = {pp[2]}
                if ps_[0].get("k") == "bind":
                    env.f[ps_[0]["name"]] = Facts_(ascii=bf.ascii)
        elif k == "pref":
            self.bind_let(pat.get("pat"), init, env, cond)

    def strip_chain_facts(self, init, env):
        """`S.strip_prefix(a)[.and_then(|r| r.strip_prefix(b))..]` is Some: S begins with an `a` then a `b`.
        Each step is an ASCII literal (its length is known) or an ASCII char predicate (one byte)."""
        x = peel(init)
        steps = []
        while isinstance(x, dict) and x.get("k") == "mcall" and x.get("m") == "and_then" and len(x.get("args") or []) == 1:
            cl = x["args"][0]
            if not (isinstance(cl, dict) and cl.get("k") == "closure" and len(cl.get("params") or []) == 1):
                return
            b_ = cl.get("body")
            while isinstance(b_, dict) and b_.get("k") == "block" and not b_.get("stmts"):
                b_ = b_.get("expr")
            q = cl["params"][0]
            while isinstance(q, dict) and q.get("k") == "pref":
                q = q.get("pat")
            r_ = peel(b_.get("recv")) if isinstance(b_, dict) and b_.get("k") == "mcall" else None
            if not (isinstance(b_, dict) and b_.get("m") == "strip_prefix" and isinstance(r_, dict) and
                    r_.get("k") == "local" and isinstance(q, dict) and r_.get("id") == q.get("id")):
                return
            steps.insert(0, (b_.get("args") or [None])[0])
            x = peel(x["recv"])
        if not (isinstance(x, dict) and x.get("k") == "mcall" and x.get("m") == "strip_prefix" and is_str_ty(x.get("rt"))):
            return
        base = place_str(x["recv"])
        if not base:
            return
        steps.insert(0, (x.get("args") or [None])[0])
        off = 0
        for a in steps:
            v = lit_val(peel(a))
            if isinstance(v, str) and v and all(ord(ch) < 128 for ch in v):
                for ch in v:
                    env.upd("%s#%d" % (base, off), ascii=True, digits=ch.isdigit())
                    off += 1
            elif self.closure_ascii_only(a):
                env.upd("%s#%d" % (base, off), ascii=True, digits=self.closure_digits_only(a))
                off += 1
            else:
                break
            env.upd(base, minlen=off)
            env.prefix.setdefault(base, set()).add(off)

    def ci_base(self, init, env):
        """base place if init is `<char_indices iterator>.next()`"""
        x = peel(init) if init is not None else None
        if isinstance(x, dict) and x.get("k") == "mcall" and x.get("m") == "next":
            it = peel(x["recv"])
            if isinstance(it, dict) and it.get("k") == "local" and it["id"] in env.iters and env.iters[it["id"]][1] == -1:
                return env.iters[it["id"]][0]
            if isinstance(it, dict) and it.get("k") == "mcall" and it.get("m") == "char_indices":
                return place_str(it["recv"])
        return None

    def arg_effects(self, e, env):
        """a successful `f(x, k)?` with a summary proves facts about x itself"""
        for n in walk(e):
            if n.get("k") in ("call", "mcall"):
                s = self.sum.get(callee(n))
                if not s or not s.get("arg0"):
                    continue
                args = list(n.get("args") or [])
                if n.get("k") == "mcall":
                    args = [n.get("recv")] + args
                if not args:
                    continue
                p = place_str(args[0])
                if not p:
                    continue
                a0 = s["arg0"]
                ml = a0.get("minlen")
                if isinstance(ml, tuple) and ml[1] < len(args):
                    ml = lit_val(peel(args[ml[1]]))
                if isinstance(ml, int):
                    env.upd(p, minlen=ml)
                if a0.get("ascii"):
                    env.upd(p, ascii=True, digits=a0.get("digits", False))

    # ---- walking ------------------------------------------------------------------
    def run(self):
        env = Env()
        self.stmt(self.b["body"], env, tail=True)

    def stmt(self, n, env, tail=False):
        """walks n, recording sites; returns env after n (None if n diverges)"""
        if n is None:
            return env
        if isinstance(n, list):
            for x in n:
                if isinstance(x, (dict, list)):
                    env = self.stmt(x, env) or env
            return env
        if not isinstance(n, dict):
            return env
        k = n.get("k")
        if k == "block":
            cur = env
            for s in n.get("stmts") or []:
                nxt = self.stmt(s, cur)
                cur = nxt if nxt is not None else cur
            if n.get("expr") is not None:
                if tail:
                    self.note_ok(n["expr"], cur)
                cur = self.stmt(n["expr"], cur, tail=tail) or cur
            return cur
        if k == "let":
            if n.get("init") is not None:
                self.expr(n["init"], env)
            if n.get("els") is not None:
                self.stmt(n["els"], env.copy())
                src = place_str(n.get("init"))
                if src:
                    env.upd(src, some=True)
            self.bind_let(n["pat"], n.get("init"), env, cond=n.get("els") is not None)
            return env
        if k == "if":
            self.expr(n["cond"], env)
            et = self.apply(n["cond"], True, env.copy())
            ee = self.apply(n["cond"], False, env.copy())
            at = self.stmt(n["then"], et, tail=tail)
            ae = self.stmt(n.get("else"), ee, tail=tail) if n.get("else") is not None else ee
            dt = diverges(n["then"])
            de = n.get("else") is not None and diverges(n["else"])
            if dt and de:
                return env
            if dt:
                return ae
            if de:
                return at
            return (at or et).meet(ae or ee)
        if k == "match":
            self.expr(n["e"], env)
            outs = []
            src = place_str(n["e"])
            for a in n.get("arms") or []:
                ea = env.copy()
                p = a["pat"]
                if p.get("k") == "pts" and (p.get("path") or "").endswith(("::Some", "::Ok")) and src:
                    ea.upd(src, some=True)
                sc = peel(n["e"])
                if p.get("k") == "plit" and p.get("t") == "char" and isinstance(sc, dict) and sc.get("k") == "local" \
                        and sc["id"] in ea.chof and ord(p["v"]) < 128:
                    iid = ea.chof[sc["id"]]
                    if ea.pos.get(iid):
                        ea.pos[iid] = (ea.pos[iid][0], "find", 1, repr(p["v"]))
                if isinstance(sc, dict) and sc.get("k") == "tup" and p.get("k") == "ptup" and \
                        len(p.get("pats") or []) == len(sc.get("es") or []):
                    # match (a, b) { (P, Q) => .. }: component-wise `if let P = a && let Q = b`
                    for q, e_ in zip(p["pats"], sc["es"]):
                        if q.get("k") in ("_",):
                            continue
                        self.bind_let(q, e_, ea, True)
                else:
                    self.bind_pat_only(p, n["e"], ea)
                if a.get("guard"):
                    self.expr(a["guard"], ea)
                    ea = self.apply(a["guard"], True, ea)
                out = self.stmt(a["body"], ea, tail=tail)
                if tail and isinstance(a["body"], dict) and a["body"].get("k") not in ("block", "if", "match", "ret"):
                    # an arm whose body is a plain expression is a result of the function
                    self.note_ok(a["body"], out or ea)
                if not diverges(a["body"]):
                    outs.append(out or ea)
            if not outs:
                return env
            r = outs[0]
            for o in outs[1:]:
                r = r.meet(o)
            return r
        if k in ("while", "loop", "for"):
            body = n["body"]
            assigned = set()
            for x in walk(body):
                if x.get("k") in ("assign", "assignop"):
                    p = place_str(x["l"])
                    if p:
                        assigned.add(p)
                    l = peel(x["l"])
                    if isinstance(l, dict) and l.get("k") == "local":
                        env.pos.pop(l["id"], None)
                if x.get("k") == "mcall" and x.get("m") in ("push", "push_str", "insert", "clear", "pop", "truncate"):
                    p = place_str(x.get("recv"))
                    if p:
                        assigned.add(p)
            inner = env.copy()
            for p in assigned:
                inner.forget(p)
            if k == "while":
                self.expr(n["cond"], inner)
                inner = self.apply(n["cond"], True, inner)
            if k == "for":
                self.expr(n["iter"], inner)
                self.bind_for(n["pat"], n["iter"], inner)
            self.stmt(body, inner)
            out = env.copy()
            for p in assigned:
                out.forget(p)
            return out
        if k == "assign":
            self.expr(n["r"], env)
            p = place_str(n["l"])
            if p:
                f = self.facts_of(n["r"], env)
                env.forget(p)
                env.f[p] = f
                env.prefix.pop(p, None)
            l = peel(n["l"])
            if isinstance(l, dict) and l.get("k") == "local":
                nm_ = l.get("name") or ""
                env.taken = {t for t in env.taken if nm_ not in t[1] and t[0] != nm_ and not t[0].startswith(nm_ + ".")
                             and not t[0].startswith(nm_ + "[")}
                ps = self.pos_of(n["r"], env)
                if ps and ps[0] != "*":
                    env.pos[l["id"]] = ps
                else:
                    env.pos.pop(l["id"], None)
            return env
        if k == "assignop":
            self.expr(n["r"], env)
            l = peel(n["l"])
            if isinstance(l, dict) and l.get("k") == "local":
                env.pos.pop(l["id"], None)
                nm_ = l.get("name") or ""
                env.taken = {t for t in env.taken if nm_ not in t[1] and t[0] != nm_}
            return env
        if k == "ret":
            if n.get("e") is not None:
                self.expr(n["e"], env)
                self.note_ok(n["e"], env)
            return None
        if k in ("break", "continue"):
            return None
        self.expr(n, env)
        if k in ("call", "mcall", "try"):
            self.arg_effects(n, env)
        return env

    def bind_for(self, pat, it, env):
        f = self.facts_of(it, env)
        base = None
        x = peel(it)
        # for (i, ch) in s.char_indices()
        while isinstance(x, dict) and x.get("k") == "mcall" and x.get("m") in ("enumerate", "skip", "take", "rev", "peekable"):
            x = peel(x["recv"])
        ci = isinstance(x, dict) and x.get("k") == "mcall" and x.get("m") == "char_indices"
        if ci:
            base = place_str(x["recv"])
        if isinstance(x, dict) and x.get("k") == "local" and x["id"] in env.iters and env.iters[x["id"]][1] == -1:
            ci = True
            base = env.iters[x["id"]][0]
        for q in self.binds(pat):
            env.f[q["name"]] = Facts_(ascii=f.ascii, digits=f.digits)
            env.pos.pop(q["id"], None)
        if ci and base and pat.get("k") == "ptup" and pat["pats"] and pat["pats"][0].get("k") == "bind":
            env.pos[pat["pats"][0]["id"]] = (base, "bound", None, None)
            if len(pat["pats"]) == 2 and pat["pats"][1].get("k") == "bind":
                env.chof[pat["pats"][1]["id"]] = pat["pats"][0]["id"]

    def binds(self, p):
        if not isinstance(p, dict):
            return
        if p.get("k") == "bind":
            yield p
        for q in p.get("pats") or []:
            yield from self.binds(q)
        if p.get("pat"):
            yield from self.binds(p["pat"])
        for f in p.get("fields") or []:
            yield from self.binds(f.get("pat"))

    def bind_pat_only(self, p, scrut, env):
        f = self.facts_of(scrut, env)
        pos = self.pos_of(scrut, env)
        for q in self.binds(p):
            env.f[q["name"]] = Facts_(ascii=f.ascii, digits=f.digits, minlen=f.minlen)
            if pos and pos[0] != "*" and p.get("k") == "pts":
                env.pos[q["id"]] = pos
            else:
                env.pos.pop(q["id"], None)

    def note_bool(self, e, env):
        if (self.b.get("output") or "") != "bool":
            return
        x = e
        while isinstance(x, dict) and x.get("k") == "block" and not x.get("stmts"):
            x = x.get("expr")
        if not isinstance(x, dict):
            return
        if x.get("k") == "lit":
            if x.get("v") is True:
                self.true_envs.append(env.copy())
            return
        if x.get("k") in ("if", "match"):
            return
        self.true_envs.append(self.apply(x, True, env.copy()))

    def note_ok(self, e, env):
        self.note_bool(e, env)
        if hasattr(self, "some_pos"):
            x = e
            while isinstance(x, dict) and x.get("k") == "block" and not x.get("stmts"):
                x = x.get("expr")
            if isinstance(x, dict) and x.get("k") == "call" and x.get("ctor") and (x.get("f") or "").endswith("::Some"):
                self.some_pos.append(self.pos_of((x.get("args") or [None])[0], env))
        e2 = e
        while isinstance(e2, dict) and e2.get("k") == "block" and not e2.get("stmts"):
            e2 = e2.get("expr")
        if isinstance(e2, dict) and e2.get("k") == "call" and e2.get("ctor") and (e2.get("f") or "").endswith("::Ok"):
            arg = (e2.get("args") or [None])[0]
            ps = self.b.get("params") or []
            p0 = ps[0]["name"] if ps and ps[0].get("k") == "bind" else None
            ret_is_p0 = False
            x = peel(arg)
            if isinstance(x, dict) and x.get("k") == "local" and x.get("name") == p0:
                ret_is_p0 = True
            self.ok_facts.append((env.get(p0).copy() if p0 else Facts_(), ret_is_p0,
                                  self.facts_of(arg, env) if arg is not None else Facts_()))

    # ---- expressions: find the sites ---------------------------------------------------
    def expr(self, n, env):
        if n is None:
            return
        if isinstance(n, list):
            for x in n:
                if isinstance(x, (dict, list)):
                    self.expr(x, env)
            return
        if not isinstance(n, dict):
            return
        k = n.get("k")
        if k == "bin" and n.get("op") == "&&":
            self.expr(n["l"], env)
            self.expr(n["r"], self.apply(n["l"], True, env.copy()))
            return
        if k == "bin" and n.get("op") == "||":
            self.expr(n["l"], env)
            self.expr(n["r"], self.apply(n["l"], False, env.copy()))
            return
        if k in ("if", "match", "block", "while", "loop", "for", "let", "assign", "assignop", "ret"):
            self.stmt(n, env.copy() if k != "block" else env)
            return
        if k == "closure":
            inner = env.copy()
            self.stmt(n["body"], inner)
            return
        if k == "mcall" and n.get("m") in ("map", "map_or", "map_or_else", "and_then", "is_some_and", "filter",
                                           "is_none_or", "inspect") and \
                any(isinstance(a, dict) and a.get("k") == "closure" for a in n.get("args") or []):
            # opt.map(|x| ..): inside the closure x is what the receiver holds when it is Some
            self.expr(n.get("recv"), env)
            pp = self.pos_of(n.get("recv"), env)
            for a in n.get("args") or []:
                if isinstance(a, dict) and a.get("k") == "closure":
                    inner = env.copy()
                    ps_ = a.get("params") or []
                    if len(ps_) == 1:
                        q = ps_[0]
                        while isinstance(q, dict) and q.get("k") == "pref":
                            q = q.get("pat")
                        if isinstance(q, dict) and q.get("k") == "bind":
                            if pp and pp[0] != "*":
                                inner.pos[q["id"]] = pp
                            f_ = self.facts_of(n.get("recv"), env)
                            inner.f[q["name"]] = Facts_(ascii=f_.ascii, digits=f_.digits, minlen=f_.minlen)
                    self.stmt(a["body"], inner)
                else:
                    self.expr(a, env)
            return
        if k == "index":
            self.index_site(n, env)
        if k == "mcall" and n.get("m") in ("unwrap", "expect"):
            self.unwrap_site(n, env)
        if k == "call" and re.search(r"(panicking::panic|panicking::unreachable|rt::begin_panic|panicking::assert_failed|rt::panic_fmt|panic_explicit|panic_display)", n.get("f") or ""):
            self.ledger.append(Site("P1", self.b, n, (n.get("f") or "").rsplit("::", 1)[-1], "finding",
                                    "explicit panic / unreachable / assert in library code"))
        if k == "mcall" and n.get("m") in ("split_at", "split_at_mut") and is_str_ty(n.get("rt")) and \
                isinstance(lit_val(peel((n.get("args") or [None])[0])), int):
            # s.split_at(k) with a constant k panics exactly when &s[..k] does
            a = (n.get("args") or [None])[0]
            self.index_site({"k": "index", "ln": n.get("ln"), "e": n["recv"], "bt": n.get("rt"), "at": n,
                             "i": {"k": "struct", "path": "std::ops::RangeTo", "t": "std::ops::RangeTo<usize>",
                                   "fields": [{"name": "end", "e": a}]}}, env)
        elif k == "mcall" and n.get("m") in ("split_at", "split_at_mut") and is_str_ty(n.get("rt")):
            a = (n.get("args") or [None])[0]
            p = self.pos_of(a, env)
            base = place_str(n["recv"])
            ok = (p is not None and (p[0] == base or p[0] == "*")) or env.get(base or "").ascii
            self.ledger.append(Site("P2", self.b, n, "%s.split_at(%s)" % (expr_text(n["recv"]), expr_text(a)),
                                    "safe" if ok else "finding", "split_at at an unproven char boundary"))
        for key, v in n.items():
            if isinstance(v, (dict, list)) and key not in ("pat", "pats"):
                self.expr(v, env)

    def index_site(self, n, env):
        bt = n.get("bt") or ""
        if not is_str_ty(bt):
            self.vec_site(n, env)
            return
        base = place_str(n["e"])
        bf = env.get(base) if base else self.facts_of(n["e"], env)
        i = n["i"]
        text = "%s[%s]" % (expr_text(n["e"]), expr_text(i))
        fs = {f["name"]: f["e"] for f in (i.get("fields") or [])} if isinstance(i, dict) and i.get("k") == "struct" else {}
        a, b_ = self.range_consts(i, env)
        problems = []
        # --- char boundary --------------------------------------------------
        if not bf.ascii:
            for side in ("start", "end"):
                if side not in fs:
                    continue
                e = fs[side]
                v = self.const(e, env)
                if v == 0:
                    continue
                p = self.pos_of(e, env)
                if p is not None and (p[0] == base or p[0] == "*"):
                    continue
                if isinstance(v, int) and base and v in env.prefix.get(base, set()):
                    continue
                pe = peel(e)
                if isinstance(pe, dict) and pe.get("k") == "local" and CN_INIT.get(pe.get("name") or "") is not None:
                    pe = peel(CN_INIT[pe["name"]])
                # base is known to start with the text T (it is the tail from where T was found): T.len() is a
                # boundary of it
                if isinstance(pe, dict) and pe.get("k") == "mcall" and pe.get("m") == "len" and base and \
                        ("len:" + expr_text(peel(pe["recv"]))) in env.prefix.get(base, set()):
                    continue
                if isinstance(pe, dict) and pe.get("k") == "bin" and pe.get("op") == "-" and base and \
                        self.len_of(pe["l"]) == base and self.const(pe["r"], env) in env.suffix.get(base, set()):
                    continue
                if isinstance(v, tuple):
                    problems.append("boundary:%s=param" % side)
                else:
                    problems.append("boundary:%s" % side)
        # --- in bounds (constant bounds only) ----------------------------------------
        need = None
        if isinstance(b_, int):
            need = b_
        elif b_ == "end" and isinstance(a, int):
            need = a
        if need is not None and need > 0 and bf.minlen < need:
            # a start bound proven as prefix length implies the length
            if not (base and need in env.prefix.get(base, set())):
                problems.append("bounds:len>=%d" % need)
        if problems and base and (base, expr_text(i)) in env.taken:
            problems = []       # the very same slice of the same unchanged text was taken before on this path
        verdict = "safe" if not problems else "finding"
        if problems and all(p.startswith("boundary:") for p in problems):
            # a bound whose value comes out of a construct the interpreter has no transfer function for (a value
            # produced by match / if / a loop) is of unknown origin: nothing can be said either way
            lost = [side for side in ("start", "end") if side in fs and self.lost_track(fs[side], 0)]
            bad_sides = {p.split(":")[1].split("=")[0] for p in problems}
            if bad_sides and bad_sides <= set(lost):
                verdict = "unjudged"
        self.ledger.append(Site("P2", self.b, n, text, verdict, ";".join(problems)))
        # whatever the verdict here: execution continues past this slice only if its constant bounds were char
        # boundaries inside the text, so later slices of the same (unchanged) text at those offsets are proven
        if base:
            env.taken.add((base, expr_text(i)))
        if base and (isinstance(a, int) or isinstance(b_, int)):
            for v_ in (a, b_):
                if isinstance(v_, int) and not isinstance(v_, bool) and v_ > 0:
                    env.prefix.setdefault(base, set()).add(v_)
                    env.upd(base, minlen=v_)

    def _bindmap(self):
        if hasattr(self, "_bm"):
            return self._bm
        bm = {}
        for x in walk(self.b["body"]):
            k = x.get("k")
            if k in ("let", "letx") and x.get("pat") is not None:
                for q in self.binds(x["pat"]):
                    bm[q["id"]] = x.get("init")
            elif k == "match":
                for a in x.get("arms") or []:
                    for q in self.binds(a.get("pat")):
                        bm[q["id"]] = x.get("e")
            elif k == "mcall":
                # |e| .. handed to an adapter: e comes out of the receiver
                for a in x.get("args") or []:
                    if isinstance(a, dict) and a.get("k") == "closure":
                        for pp in a.get("params") or []:
                            for q in self.binds(pp):
                                bm[q["id"]] = x.get("recv")
        self._bm = bm
        return bm

    def lost_track(self, e, depth):
        e = peel(e)
        if not isinstance(e, dict) or depth > 6:
            return False
        k = e.get("k")
        if k in ("match", "if", "loop", "while"):
            return True
        if k == "block":
            return bool(e.get("stmts")) or self.lost_track(e.get("expr"), depth + 1)
        if k == "local":
            # a local that is assigned to after its declaration (set in one branch, kept in another) is the value of
            # an `if` written with statements: the same unknown origin
            # (only when every value it is given is an integer literal: `let mut start = 3; if c { start = 5 }`;
            # a cursor advanced by arithmetic stays a judged value)
            if not hasattr(self, "_assigned"):
                lit_only, other = set(), set()
                for x in walk(self.b["body"]):
                    if x.get("k") in ("assign", "assignop"):
                        l_ = peel(x.get("l"))
                        if isinstance(l_, dict) and l_.get("k") == "local":
                            v_ = lit_val(peel(x.get("r"))) if x.get("k") == "assign" else None
                            if isinstance(v_, int) and not isinstance(v_, bool):
                                lit_only.add(l_["id"])
                            else:
                                other.add(l_["id"])
                self._assigned = lit_only - other
            if e.get("id") in self._assigned:
                init0 = self._bindmap().get(e.get("id"))
                v0 = lit_val(peel(init0)) if init0 is not None else None
                if isinstance(v0, int) and not isinstance(v0, bool):
                    return True
            init = self._bindmap().get(e.get("id"))
            return init is not None and self.lost_track(init, depth + 1)
        if k == "bin":
            return self.lost_track(e.get("l"), depth + 1) or self.lost_track(e.get("r"), depth + 1)
        if k == "mcall" and e.get("m") in ("unwrap", "expect", "unwrap_or", "unwrap_or_default", "min", "max"):
            return self.lost_track(e.get("recv"), depth + 1)
        if k == "try":
            return self.lost_track(e.get("e"), depth + 1)
        if k in ("call", "mcall"):
            cal = callee(e)
            hb = self.F.body_by_path.get(cal)
            if hb is not None and not hb.get("exp") and "body" in hb and ("posfn:" + cal) not in self.sum \
                    and not cal.startswith(("std::", "core::", "alloc::")):
                return True
        return False

    def vec_site(self, n, env):
        bt = n.get("bt") or ""
        i = n["i"]
        v = self.const(i, env)
        base = place_str(n["e"])
        text = "%s[%s]" % (expr_text(n["e"]), expr_text(i))
        if isinstance(v, int):
            bf = env.get(base) if base else Facts_()
            ok = bf.minlen > v
            self.ledger.append(Site("P4", self.b, n, text, "safe" if ok else "finding",
                                    "" if ok else "bounds:len>%d" % v))
        else:
            self.ledger.append(Site("P4", self.b, n, text, "unjudged", "non-constant index"))

    def unwrap_site(self, n, env):
        recv = n["recv"]
        # s.get(a..b).unwrap() panics exactly when &s[a..b] does: one and the same site
        g0 = recv
        while isinstance(g0, dict) and g0.get("k") == "ref":
            g0 = g0.get("e")
        if isinstance(g0, dict) and g0.get("k") == "mcall" and g0.get("m") == "get" and len(g0.get("args") or []) == 1 \
                and is_str_ty(g0.get("rt")):
            rng = g0["args"][0]
            while isinstance(rng, dict) and rng.get("k") == "ref":
                rng = rng.get("e")
            if isinstance(rng, dict) and rng.get("k") == "struct" and "Range" in (rng.get("path") or rng.get("t") or ""):
                self.index_site({"k": "index", "ln": n.get("ln"), "e": g0["recv"], "i": rng,
                                 "bt": g0.get("rt"), "at": n}, env)
                return
        text = "%s.%s()" % (expr_text(recv), n["m"])
        rp = place_str(recv)
        ok = False
        why = "receiver not proven Some/Ok"
        r = peel(recv) if False else recv
        # 1. place proven by a dominating is_some / if-let
        if rp and env.get(rp).some:
            ok = True
        r0 = peel(recv)
        if isinstance(r0, dict) and r0.get("k") == "local" and r0["id"] in env.nth:
            b0, cnt = env.nth[r0["id"]]
            bf = env.get(b0)
            if (cnt == 0 and bf.minlen >= 1) or (bf.ascii and bf.minlen > cnt) or (cnt + 1) in env.prefix.get(b0, set()) \
                    or (cnt in env.prefix.get(b0, set()) and bf.minlen > cnt and cnt == 0):
                ok = True
            why = "n-th character of text whose length is not proven"
        rr = recv
        while isinstance(rr, dict) and rr.get("k") == "mcall" and rr.get("m") in ("as_ref", "as_mut", "as_deref", "clone", "cloned", "copied"):
            rr = rr["recv"]
            p2 = place_str(rr)
            if p2 and env.get(p2).some:
                ok = True
        if not ok and isinstance(rr, dict) and rr.get("k") == "mcall":
            m = rr.get("m")
            inner = rr.get("recv")
            if m == "next" or m == "last" or m == "first":
                base = self.chars_base(inner) or place_str(inner)
                cnt = 0
                it = peel(inner)
                if isinstance(it, dict) and it.get("k") == "local" and it["id"] in env.iters:
                    base, cnt = env.iters[it["id"]]
                if base and cnt == 0 and env.get(base).minlen >= 1:
                    ok = True
                elif base and cnt > 0 and env.get(base).ascii and env.get(base).minlen > cnt:
                    ok = True
                why = "first element of a possibly empty sequence"
            elif m == "nth":
                base = self.chars_base(inner)
                kk = lit_val((rr.get("args") or [None])[0])
                if base and isinstance(kk, int):
                    bf = env.get(base)
                    if bf.ascii and bf.minlen > kk:
                        ok = True
                why = "chars().nth(k) on text not proven ASCII with len > k"
            elif m == "to_digit":
                c = place_str(inner)
                if c and env.get(c).digits:
                    ok = True
                nb = self.nth_base(inner, env)
                if nb and env.get("%s#%d" % nb).digits:
                    ok = True
                if env.get(expr_text(inner)).digits:
                    ok = True
                why = "to_digit on a char not proven to be an ASCII digit"
            elif m == "parse":
                base = place_str(inner) or None
                bf = self.facts_of(inner, env)
                if bf.digits and bf.minlen >= 1:
                    ok = True
                why = "str::parse on text not proven to consist of ASCII digits"
            elif m in ("strip_prefix", "strip_suffix"):
                why = "strip_prefix without a dominating starts_with"
            elif m in ("as_object_mut", "as_object", "as_array_mut"):
                # json!({..}) literal objects
                ok = any(True for _ in [1]) and "serde_json" in (rr.get("f") or "")
                why = "json accessor"
        if not ok and isinstance(rr, dict) and rr.get("k") == "call":
            f = rr.get("f") or ""
            if f.endswith("Regex::new") and isinstance(lit_val((rr.get("args") or [None])[0]), str):
                ok = True
        self.ledger.append(Site("P3", self.b, n, text, "safe" if ok else "finding", "" if ok else why))


# ---------------------------------------------------------------------------

def compute_summaries(F):
    """facts every Ok-returning validator guarantees about its first argument / its result.
    Two rounds so that validators built on validators are covered."""
    summ = {}
    for _ in range(2):
        for b in F.bodies:
            if "body" not in b or b.get("exp") or b["kind"] not in ("Fn", "AssocFn"):
                continue
            ins = b.get("inputs") or []
            if not ins or not is_str_ty(ins[0]):
                continue
            out = b.get("output") or ""
            if not out.startswith("std::result::Result<"):
                continue
            if not b["path"].startswith("fields::"):
                continue
            it = Interp(F, b, summ, [])
            try:
                it.run()
            except RecursionError:
                continue
            if not it.ok_facts:
                continue
            p0 = it.ok_facts[0][0]
            for f, _, _ in it.ok_facts[1:]:
                p0 = p0.meet(f)
            s = {"arg0": {"ascii": p0.ascii, "digits": p0.digits, "minlen": p0.minlen}}
            # symbolic length (parse_exact_length): look for `input.len() != <param>` shape
            ml = symbolic_minlen(it, b)
            if ml is not None:
                s["arg0"]["minlen"] = ml
            if all(r for _, r, _ in it.ok_facts) and "String" in out:
                s["ascii"] = p0.ascii
                s["digits"] = p0.digits
                s["minlen"] = s["arg0"]["minlen"]
                s["keeps_len"] = True
            if s["arg0"]["ascii"] or s["arg0"]["minlen"] or "ascii" in s:
                summ[b["path"]] = s
    # position-returning helpers: fn(text) -> Option<usize> whose Some values are char positions of text
    for b in F.bodies:
        if "body" not in b or b.get("exp") or b["kind"] not in ("Fn", "AssocFn"):
            continue
        if (b.get("output") or "") != "std::option::Option<usize>":
            continue
        ins = b.get("inputs") or []
        ps = b.get("params") or []
        if not ins or not is_str_ty(ins[0]) or not ps or ps[0].get("k") != "bind":
            continue
        it = Interp(F, b, summ, [])
        it.some_pos = []
        try:
            it.run()
        except RecursionError:
            continue
        if it.some_pos and all(p is not None and p[0] == ps[0]["name"] and p[1] != "rel" for p in it.some_pos):
            summ["posfn:" + b["path"]] = {"n": len(it.some_pos)}
    # predicate summaries: what holds for the first argument whenever a bool fn returns true
    for b in F.bodies:
        if "body" not in b or b.get("exp") or b["kind"] not in ("Fn", "AssocFn") or (b.get("output") or "") != "bool":
            continue
        ins = b.get("inputs") or []
        if not ins or not is_str_ty(ins[0]) or not b["path"].startswith(("fields::", "parser::")):
            continue
        ps = b.get("params") or []
        if not ps or ps[0].get("k") != "bind":
            continue
        p0 = ps[0]["name"]
        it = Interp(F, b, summ, [])
        try:
            it.run()
        except RecursionError:
            continue
        if not it.true_envs:
            continue
        m = it.true_envs[0]
        for e in it.true_envs[1:]:
            m = m.meet(e)
        f = m.get(p0)
        s = {"minlen": f.minlen, "ascii": f.ascii, "prefix": sorted(m.prefix.get(p0, set())),
             "first_digit": m.get(p0 + "#0").digits}
        if s["minlen"] or s["ascii"] or s["prefix"]:
            summ["pred:" + b["path"]] = s
    return summ


def symbolic_minlen(it, b):
    body = b["body"]
    stmts = body.get("stmts") or []
    for st in stmts:
        if st.get("k") == "if" and diverges(st["then"]):
            c = st["cond"]
            if c.get("k") == "bin" and c.get("op") in ("!=", "<"):
                lp = it.len_of(c["l"])
                r = peel(c["r"])
                ps = b.get("params") or []
                if lp and ps and lp == ps[0].get("name") and isinstance(r, dict) and r.get("k") == "local" \
                        and r["id"] in it.params:
                    return ("param", it.params[r["id"]])
    return None


def entry_roots(F):
    roots = []
    for b in F.bodies:
        if b.get("exp") or "body" not in b:
            continue
        t = b.get("impl_trait") or ""
        if t.endswith(("traits::SwiftField", "traits::SwiftMessageBody", "fmt::Display")):
            roots.append(b["path"])
        elif b.get("pub") and b["path"].startswith(("parser::", "headers::", "swift_message::", "parsed_message::",
                                                   "errors::", "messages::", "fields::", "plugin::", "utils::")):
            roots.append(b["path"])
        elif b["name"] in ("serialize", "deserialize") and b["path"].startswith(("fields::", "headers::")):
            roots.append(b["path"])
    return roots


PARAM_LITERALS = {}


def param_literals(F):
    """(private fn path, parameter index) -> set of string literals, when every call site in the crate passes a
    string literal there (the callee is only ever used with those texts)"""
    calls = {}
    for b in F.bodies:
        if "body" not in b or b.get("exp"):
            continue
        for n in walk(b["body"]):
            if n.get("k") in ("call", "mcall"):
                cal = callee(n)
                hb = F.body_by_path.get(cal)
                if hb is None or hb.get("pub") or hb.get("exp"):
                    continue
                args = list(n.get("args") or [])
                if n.get("k") == "mcall":
                    args = [n.get("recv")] + args
                calls.setdefault(cal, []).append(args)
    out = {}
    for cal, sites in calls.items():
        n_args = min(len(a) for a in sites)
        for i in range(n_args):
            vals = [lit_val(peel(a[i])) if isinstance(a[i], dict) else None for a in sites]
            if vals and all(isinstance(v, str) for v in vals):
                out[(cal, i)] = set(vals)
    return out


def ledger(F):
    PARAM_LITERALS.clear()
    PARAM_LITERALS.update(param_literals(F))
    summ = compute_summaries(F)
    cg = CallGraph(F)
    reach = cg.reachable(entry_roots(F))
    out = []
    n_fns = 0
    for b in F.bodies:
        if "body" not in b or b.get("exp") or b["kind"] not in ("Fn", "AssocFn"):
            continue
        if b["path"].startswith(("sample::", "scenario_config::", "plugin::generate")):
            continue
        if b["path"] not in reach and not b.get("pub"):
            continue
        n_fns += 1
        it = Interp(F, b, summ, out)
        try:
            it.run()
        except RecursionError:
            pass
    return out, summ, n_fns
