"""A5 / V4: guard formulas of network-rule error sites.

For every SwiftValidationError constructor call reachable from a type's validate_network_rules (stop flag = false),
the path condition is extracted as a boolean formula over canonical atoms (presence of a tag, equality with a
literal, membership in a code table expanded to its literals, thresholds on lengths, equality of two components,
float comparisons keyed by their literal).  Formulas are compared by logical equivalence (truth tables), never by
shape."""
import itertools
import re
from .facts import walk, is_call, lit_val, peel, callee
from . import grammar as G

ERR_CTORS = ("SwiftValidationError::format_error", "SwiftValidationError::business_error",
             "SwiftValidationError::content_error", "SwiftValidationError::relation_error",
             "SwiftValidationError::general_error")

TRUE = ("T",)
FALSE = ("F",)


def f_not(a):
    if a == TRUE:
        return FALSE
    if a == FALSE:
        return TRUE
    if a[0] == "not":
        return a[1]
    return ("not", a)


def f_and(a, b):
    if a == FALSE or b == FALSE:
        return FALSE
    if a == TRUE:
        return b
    if b == TRUE:
        return a
    if a == b:
        return a
    return ("and", a, b)


def f_or(a, b):
    if a == TRUE or b == TRUE:
        return TRUE
    if a == FALSE:
        return b
    if b == FALSE:
        return a
    if a == f_not(b) or a == b:
        return TRUE if a != b else a
    return ("or", a, b)


def _unit_if(n):
    """an if whose branches are blocks without a value expression (statement-like)"""
    t = n.get("then")
    if not (isinstance(t, dict) and t.get("k") == "block" and t.get("expr") is None):
        # a then-block ending in a loop / nested unit if is also value-less
        if isinstance(t, dict) and t.get("k") == "block" and isinstance(t.get("expr"), dict) and \
                (t["expr"].get("k") in ("for", "while", "loop") or (t["expr"].get("k") == "if" and _unit_if(t["expr"]))):
            pass
        else:
            return False
    e = n.get("else")
    if e is None:
        return True
    if e.get("k") == "if":
        return _unit_if(e)
    return e.get("k") == "block" and (e.get("expr") is None or
                                      (isinstance(e.get("expr"), dict) and e["expr"].get("k") in ("for", "while", "loop")))


def _walk_binds(p):
    if not isinstance(p, dict):
        return
    if p.get("k") == "bind":
        yield p
    for q in p.get("pats") or []:
        yield from _walk_binds(q)
    if p.get("pat"):
        yield from _walk_binds(p["pat"])
    for f in p.get("fields") or []:
        yield from _walk_binds(f.get("pat"))


def atoms_of(f, out=None):
    out = out if out is not None else set()
    if f[0] == "atom":
        out.add(f[1])
    elif f[0] in ("not",):
        atoms_of(f[1], out)
    elif f[0] in ("and", "or"):
        atoms_of(f[1], out)
        atoms_of(f[2], out)
    return out


def ev(f, val):
    t = f[0]
    if t == "T":
        return True
    if t == "F":
        return False
    if t == "atom":
        return val[f[1]]
    if t == "not":
        return not ev(f[1], val)
    if t == "and":
        return ev(f[1], val) and ev(f[2], val)
    if t == "or":
        return ev(f[1], val) or ev(f[2], val)
    raise ValueError(t)


def show(f):
    t = f[0]
    if t == "T":
        return "true"
    if t == "F":
        return "false"
    if t == "atom":
        return f[1]
    if t == "not":
        return "!" + (show(f[1]) if f[1][0] in ("atom", "not") else "(" + show(f[1]) + ")")
    if t == "and":
        return " & ".join(show(x) if x[0] != "or" else "(" + show(x) + ")" for x in (f[1], f[2]))
    if t == "or":
        return " | ".join(show(x) for x in (f[1], f[2]))
    return "?"


def to_json(f):
    return list(f) if f[0] in ("T", "F", "atom") else [f[0]] + [to_json(x) for x in f[1:]]


def from_json(j):
    if j[0] in ("T", "F"):
        return (j[0],)
    if j[0] == "atom":
        return ("atom", j[1])
    return tuple([j[0]] + [from_json(x) for x in j[1:]])


def is_opaque(a):
    return a.startswith("OPQ(")


def thresholds_consistent(val):
    """GE(x,k) atoms must be monotone: GE(x,k+1) -> GE(x,k); EQ(x,'A') and EQ(x,'B') exclusive"""
    ge = {}
    eq = {}
    for a, v in val.items():
        m = re.match(r"^GE\((.*),(\d+)\)$", a)
        if m:
            ge.setdefault(m.group(1), []).append((int(m.group(2)), v))
        m = re.match(r"^EQ\((.*),'(.*)'\)$", a)
        if m and v:
            eq[m.group(1)] = eq.get(m.group(1), 0) + 1
    for x, lst in ge.items():
        lst.sort()
        seen_false = False
        for k, v in lst:
            if not v:
                seen_false = True
            elif seen_false:
                return False
    return all(c <= 1 for c in eq.values())


def equivalent(f, g, max_atoms=16):
    """logical equivalence over the union of atoms; opaque atoms are projected out existentially on both sides.
    returns (True/False/None, witness)"""
    A = sorted(atoms_of(f) | atoms_of(g))
    opq = [a for a in A if is_opaque(a)]
    vis = [a for a in A if not is_opaque(a)]
    if len(A) > max_atoms:
        return None, "too many atoms (%d)" % len(A)
    for bits in itertools.product([False, True], repeat=len(vis)):
        val = dict(zip(vis, bits))
        if not thresholds_consistent(val):
            continue
        fv = gv = False
        for ob in itertools.product([False, True], repeat=len(opq)):
            v2 = dict(val)
            v2.update(zip(opq, ob))
            fv = fv or ev(f, v2)
            gv = gv or ev(g, v2)
        if fv != gv:
            return False, {k: v for k, v in val.items()}
    return True, None


# ---------------------------------------------------------------------------

def text(n, depth=0):
    from .panics import expr_text
    return expr_text(n)


class Extract:
    def __init__(self, F, tm, const_cache=None):
        self.F = F
        self.tm = tm
        self.T = tm.T
        self.sites = []          # (code, formula, file, ln, fn path)
        self.depth = 0
        self.tagmap = {}         # (struct path, field name) -> tag text
        if tm.g:
            for inst in tm.model_structs():
                per = {}
                for fname in inst.fields:
                    ss = tm.field_sites(inst, fname)
                    tags = sorted({s.tag for s in ss if s.tag})
                    if tags:
                        per[fname] = "/".join(tags)
                cnt = {}
                for t in per.values():
                    cnt[t] = cnt.get(t, 0) + 1
                for fname, t in per.items():
                    # two model fields with the same tag (50 C/L vs 50 F/G/H): keep them apart by the letters
                    if cnt[t] > 1:
                        ss = tm.field_sites(inst, fname)
                        letters = set()
                        for s_ in ss:
                            for em in tm.ft.emitted(s_.ty):
                                letters.add(em[len(t):] or "-")
                        t = "%s{%s}" % (t, "".join(sorted(letters)))
                        if any(v == t for k2, v in self.tagmap.items() if k2[0] == inst.path):
                            t = "%s#%s" % (t, fname)
                    self.tagmap[(inst.path, fname)] = t
        self.fn_cache = {}
        self.visiting = set()

    # ---- places --------------------------------------------------------------
    def place(self, n, env):
        """canonical text of a place expression, or None"""
        n = peel(n)
        if not isinstance(n, dict):
            return None
        k = n.get("k")
        if k == "local":
            a = env.get(n["id"])
            if a and a[0] == "place":
                return a[1]
            if n.get("name") == "self":
                return G.short(self.T)
            return None
        if k == "field":
            base = self.place(n["e"], env)
            bt = (n.get("bt") or "").lstrip("&").strip()
            bt = re.sub(r"^(mut )?", "", bt)
            sty = bt
            m = re.match(r"^(?:std::boxed::Box<)?([A-Za-z_:0-9]+)", bt)
            if m:
                sty = m.group(1)
            name = self.tagmap.get((sty, n["name"]), n["name"])
            if base is None:
                base = G.short(sty)
            return "%s.%s" % (base, name)
        if k == "mcall" and n.get("m") == "first" and not n.get("args"):
            b = self.place(n["recv"], env)
            return "%s[0]" % b if b else None       # v.first() reads v[0]
        if k == "mcall" and n.get("m") in ("unwrap", "expect", "iter", "last", "get") and not n.get("args"):
            return self.place(n["recv"], env)
        if k == "index":
            b = self.place(n["e"], env)
            if not b:
                return None
            i = n.get("i")
            if is_const_range(i):
                return "%s[%s]" % (b, text(i))
            v = lit_val(i) if isinstance(i, dict) else None
            if isinstance(v, int):
                return "%s[%d]" % (b, v)
            return b + "[]"
        if k == "try":
            return self.place(n["e"], env)
        return None

    def const_strs(self, n):
        """list of string literals of an array/slice constant expression, or None"""
        n = peel(n)
        if not isinstance(n, dict):
            return None
        if n.get("k") == "array":
            out = []
            for e in n["es"]:
                v = lit_val(peel(e))
                if not isinstance(v, str):
                    return None
                out.append(v)
            return out
        if n.get("k") == "def" and n.get("dk") in ("const", "assoc_const", "static"):
            cb = self.F.body_by_path.get(n.get("def"))
            if cb is not None and "body" in cb:
                x = cb["body"]
                while isinstance(x, dict) and x.get("k") == "block" and not x.get("stmts"):
                    x = x.get("expr")
                return self.const_strs(x)
        if n.get("k") == "ref":
            return self.const_strs(n.get("e"))
        if n.get("k") == "local":
            # `let table = ["A", "B"];` : an immutable binding of a constant table is that table
            from .facts import CN_INIT
            init = CN_INIT.get(n.get("name") or "")
            if init is not None:
                return self.const_strs(init)
            return None
        return None

    def const_int(self, n):
        n = peel(n)
        v = lit_val(n)
        if isinstance(v, int) and not isinstance(v, bool):
            return v
        if isinstance(n, dict) and n.get("k") == "def" and n.get("dk") in ("const", "assoc_const"):
            cb = self.F.body_by_path.get(n.get("def"))
            if cb is not None and "body" in cb:
                x = cb["body"]
                while isinstance(x, dict) and x.get("k") == "block" and not x.get("stmts"):
                    x = x.get("expr")
                v = lit_val(x)
                if isinstance(v, int):
                    return v
        return None

    # ---- conditions -------------------------------------------------------------
    def atom(self, s):
        return ("atom", s)

    def opq(self, n):
        return self.atom("OPQ(%s)" % text(n))

    def cond(self, c, env):
        if not isinstance(c, dict):
            return TRUE
        k = c.get("k")
        if k == "lit" and c.get("t") == "bool":
            return TRUE if c.get("v") else FALSE
        if k == "block" and not c.get("stmts") and c.get("expr") is not None:
            return self.cond(c["expr"], env)
        if k == "block" and c.get("expr") is not None and all(s_.get("k") == "let" and s_.get("els") is None
                                                               for s_ in c.get("stmts") or []):
            # { let a = ..; let b = ..; a && b }: the bindings are read, then the condition
            e2 = dict(env)
            for s_ in c["stmts"]:
                self.do_let(s_, e2)
            return self.cond(c["expr"], e2)
        if k == "un" and c.get("op") == "!":
            return f_not(self.cond(c["e"], env))
        if k == "ref" or (k == "un" and c.get("op") == "*"):
            return self.cond(c["e"], env)
        if k == "bin" and c.get("op") == "&&":
            l = self.cond(c["l"], env)
            # let-chains bind inside the right operand
            return f_and(l, self.cond(c["r"], env))
        if k == "bin" and c.get("op") == "||":
            return f_or(self.cond(c["l"], env), self.cond(c["r"], env))
        if k == "local":
            a = env.get(c["id"])
            if a and a[0] == "bool":
                return a[1]
            if a and a[0] == "flag":
                return FALSE
            return self.opq(c)
        if k == "letx":
            return self.letx(c, env)
        if k == "bin" and c.get("op") in ("==", "!=", "<", "<=", ">", ">="):
            return self.compare(c, env)
        if k == "mcall":
            return self.mcall_cond(c, env)
        if k == "call":
            cal = callee(c)
            b = self.F.body_by_path.get(cal)
            if b is not None and (b.get("output") or "") == "bool" and "body" in b and not b.get("exp"):
                return self.fn_formula(b, c, env)
            return self.opq(c)
        if k == "match":
            # matches!(x, A | B) expands to match x { A | B => true, _ => false }
            out = FALSE
            scrut = c["e"]
            negs = TRUE
            for arm in c.get("arms") or []:
                pc = self.pat_cond(arm["pat"], scrut, env)
                val = self.cond(arm["body"], env)
                out = f_or(out, f_and(f_and(negs, pc), val))
                negs = f_and(negs, f_not(pc))
            return out
        if k == "if":
            cc = self.cond(c["cond"], env)
            t = self.cond(c["then"], env)
            e = self.cond(c["else"], env) if c.get("else") is not None else FALSE
            return f_or(f_and(cc, t), f_and(f_not(cc), e))
        return self.opq(c)

    def letx(self, c, env):
        pat = c["pat"]
        init = c["init"]
        p = pat
        while p.get("k") == "pref":
            p = p["pat"]
        if p.get("k") == "pts" and (p.get("path") or "").endswith("::Some"):
            # Some(x) = small_option_getter(..): read the getter's body in place of the call
            i0 = peel(init)
            if isinstance(i0, dict) and i0.get("k") in ("call", "mcall") and getattr(self, "_inl", 0) < 3:
                hb = self.F.body_by_path.get(callee(i0))
                if hb is not None and "body" in hb and not hb.get("exp") and \
                        (hb.get("output") or "").startswith("std::option::Option<") and \
                        isinstance(hb["body"], dict) and hb["body"].get("k") == "block" and \
                        not hb["body"].get("stmts") and hb["body"].get("expr") is not None and \
                        hb["body"]["expr"].get("k") not in ("if", "match", "loop", "while", "for"):
                    fenv = {}
                    args = list(i0.get("args") or [])
                    if i0.get("k") == "mcall":
                        args = [i0.get("recv")] + args
                    ok = True
                    for pp, a in zip(hb.get("params") or [], args):
                        pl_ = self.place(a, env)
                        if pp.get("k") != "bind" or not pl_:
                            ok = False
                            break
                        fenv[pp["id"]] = ("place", pl_)
                    if ok:
                        self._inl = getattr(self, "_inl", 0) + 1
                        try:
                            f = self.letx({"k": "letx", "pat": pat, "init": hb["body"]["expr"]}, fenv)
                        finally:
                            self._inl -= 1
                        for q in _walk_binds(pat):
                            if q["id"] in fenv:
                                env[q["id"]] = fenv[q["id"]]
                        return f
            # Some(x) = place.as_ref().map(|f| f.a.b): present iff place is, x is the projection
            if isinstance(i0, dict) and i0.get("k") == "mcall" and i0.get("m") == "map" and i0.get("args") and \
                    i0["args"][0].get("k") == "closure":
                base = self.place(i0.get("recv"), env)
                cl = i0["args"][0]
                ps_ = cl.get("params") or []
                if base and len(ps_) == 1:
                    q0 = ps_[0]
                    while isinstance(q0, dict) and q0.get("k") == "pref":
                        q0 = q0["pat"]
                    if isinstance(q0, dict) and q0.get("k") == "bind":
                        e2 = dict(env)
                        e2[q0["id"]] = ("place", base)
                        proj = self.place(cl.get("body"), e2)
                        if proj:
                            inner = p["pats"][0] if p.get("pats") else None
                            while isinstance(inner, dict) and inner.get("k") == "pref":
                                inner = inner["pat"]
                            if isinstance(inner, dict) and inner.get("k") == "bind":
                                env[inner["id"]] = ("place", proj)
                            return self.atom("P(%s)" % base)
            pl = self.place(init, env)
            self.bind_pat(p["pats"][0] if p.get("pats") else None, init, env)
            if pl:
                return self.atom("P(%s)" % pl)
            # Some(x) = iterator.next()/find(..) etc.
            return self.opq(init)
        if p.get("k") in ("pts", "pstruct", "ppath"):
            return self.pat_cond(p, init, env)
        i0 = peel(init)
        if isinstance(i0, dict) and i0.get("k") == "local":
            a_ = env.get(i0["id"])
            if a_ and a_[0] == "value":
                i0 = peel(a_[1])
            else:
                from .facts import CN_INIT
                if CN_INIT.get(i0.get("name") or "") is not None:
                    i0 = peel(CN_INIT[i0["name"]])
        if p.get("k") == "ptup" and isinstance(i0, dict) and i0.get("k") == "tup" and \
                len(p.get("pats") or []) == len(i0.get("es") or []):
            # if let (P, Q) = (a, b): component-wise
            out = TRUE
            for q, e_ in zip(p["pats"], i0["es"]):
                qq = q
                while isinstance(qq, dict) and qq.get("k") == "pref":
                    qq = qq.get("pat")
                if not isinstance(qq, dict) or qq.get("k") in ("_",):
                    continue
                if qq.get("k") == "bind":
                    self.bind_pat(qq, e_, env)
                    continue
                out = f_and(out, self.letx({"k": "letx", "pat": qq, "init": e_}, env))
            return out
        return self.opq(c)

    def bind_pat(self, pat, init, env):
        if not isinstance(pat, dict):
            return
        if pat.get("k") == "bind":
            pl = self.place(init, env)
            if pl:
                env[pat["id"]] = ("place", pl)
            else:
                env[pat["id"]] = ("value", init)
        elif pat.get("k") == "pref":
            self.bind_pat(pat.get("pat"), init, env)

    def pat_cond(self, p, scrut, env):
        k = p.get("k")
        if k in ("_", "bind"):
            return TRUE
        if k == "por":
            out = FALSE
            for q in p["pats"]:
                out = f_or(out, self.pat_cond(q, scrut, env))
            return out
        if k == "plit":
            pl = self.place(scrut, env) or text(scrut)
            return self.atom("EQ(%s,'%s')" % (pl, p.get("v")))
        if k in ("pts", "pstruct", "ppath"):
            path = p.get("path") or ""
            pl = self.place(scrut, env) or text(scrut)
            if path.endswith("::Some"):
                inner = (p.get("pats") or [None])[0]
                f = self.atom("P(%s)" % pl)
                if isinstance(inner, dict) and inner.get("k") == "plit":
                    return f_and(f, self.atom("EQ(%s,'%s')" % (pl, inner.get("v"))))
                if isinstance(inner, dict):
                    self.bind_pat(inner, scrut, env)
                return f
            if path.endswith("::None"):
                return f_not(self.atom("P(%s)" % pl))
            vn = path.rsplit("::", 1)[-1]
            for q in p.get("pats") or []:
                if q.get("k") == "bind":
                    env[q["id"]] = ("place", "%s{%s}" % (pl, vn))
            return self.atom("IS(%s,%s)" % (pl, vn))
        if k == "pref":
            return self.pat_cond(p["pat"], scrut, env)
        if k == "ptup":
            sc = peel(scrut)
            out = TRUE
            if isinstance(sc, dict) and sc.get("k") == "tup" and len(sc["es"]) == len(p["pats"]):
                for q, e in zip(p["pats"], sc["es"]):
                    out = f_and(out, self.pat_cond(q, e, env))
                return out
        return self.atom("OPQ(pat:%s)" % k)

    def value_text(self, n, env):
        """canonical text for a value used in comparisons"""
        pl = self.place(n, env)
        if pl:
            return pl
        x = peel(n)
        if isinstance(x, dict) and x.get("k") == "def" and x.get("dk") in ("const", "assoc_const"):
            cb = self.F.body_by_path.get(x.get("def"))
            if cb is not None and "body" in cb:
                y = cb["body"]
                while isinstance(y, dict) and y.get("k") == "block" and not y.get("stmts"):
                    y = y.get("expr")
                v = lit_val(y)
                if v is not None:
                    return "'%s'" % v
        if isinstance(x, dict) and x.get("k") == "match":
            return "match(%s){%s}" % (self.value_text(x["e"], env),
                                      ",".join(self.value_text(a["body"], env) for a in x.get("arms") or []))
        if isinstance(x, dict) and x.get("k") == "local":
            a = env.get(x["id"])
            if a and a[0] == "value":
                return self.value_text(a[1], env)
        if isinstance(x, dict) and x.get("k") in ("call", "mcall") and getattr(self, "_inl", 0) < 3:
            # a small crate-local helper (no statements but lets, one result expression) reads as its body
            hb = self.F.body_by_path.get(callee(x))
            if hb is not None and "body" in hb and not hb.get("exp") and hb["kind"] in ("Fn", "AssocFn") \
                    and (hb.get("output") or "") not in ("bool", "()") \
                    and not (hb.get("output") or "").startswith(("std::result::Result<", "std::vec::Vec<")) \
                    and hb["path"] not in getattr(self, "visiting", set()):
                body = hb["body"]
                stmts = body.get("stmts") or [] if isinstance(body, dict) and body.get("k") == "block" else None
                if stmts is not None and all(s.get("k") == "let" for s in stmts) and body.get("expr") is not None \
                        and body["expr"].get("k") not in ("if", "match", "loop", "while", "for") and len(stmts) <= 3:
                    fenv = {}
                    args = list(x.get("args") or [])
                    if x.get("k") == "mcall":
                        args = [x.get("recv")] + args
                    ok = True
                    for p, a in zip(hb.get("params") or [], args):
                        if p.get("k") != "bind":
                            ok = False
                            break
                        pl = self.place(a, env)
                        fenv[p["id"]] = ("place", pl) if pl else ("value", a)
                    if ok:
                        # arguments that are values are rendered in the caller's environment first
                        for k_, v_ in list(fenv.items()):
                            if v_[0] == "value":
                                fenv[k_] = ("place", self.value_text(v_[1], env))
                        self._inl = getattr(self, "_inl", 0) + 1
                        try:
                            for s_ in stmts:
                                self.do_let(s_, fenv)
                            return self.value_text(body["expr"], fenv)
                        finally:
                            self._inl -= 1
        if isinstance(x, dict) and x.get("k") == "mcall" and x.get("m") in ("len", "count"):
            inner = self.value_text(x["recv"], env)
            return "len(%s)" % inner
        if isinstance(x, dict) and x.get("k") == "mcall" and x.get("m") in ("abs",):
            return "abs(%s)" % self.value_text(x["recv"], env)
        if isinstance(x, dict) and x.get("k") == "bin" and x.get("op") in ("-", "+", "*", "/", "%"):
            return "(%s%s%s)" % (self.value_text(x["l"], env), x["op"], self.value_text(x["r"], env))
        if isinstance(x, dict) and x.get("k") == "mcall" and x.get("m") in ("round", "floor", "ceil", "trunc", "powi",
                                                                          "min", "max", "to_uppercase", "to_lowercase",
                                                                          "trim", "trim_start", "trim_end"):
            return "%s.%s(%s)" % (self.value_text(x["recv"], env), x["m"],
                                  ",".join(self.value_text(a, env) for a in x.get("args") or []))
        if isinstance(x, dict) and x.get("k") == "index" and is_const_range(x.get("i")):
            return "%s[%s]" % (self.value_text(x["e"], env), text(x["i"]))
        if isinstance(x, dict) and x.get("k") == "mcall" and x.get("m") in ("filter", "map", "iter", "sum", "collect"):
            return "%s.%s(..)" % (self.value_text(x["recv"], env), x["m"])
        if isinstance(x, dict) and x.get("k") == "call" and not x.get("ctor") and \
                not any(isinstance(a, dict) and a.get("k") == "closure" for a in x.get("args") or []):
            # arguments are rendered in this environment (helpers inlined, places resolved)
            return "%s(%s)" % ((x.get("f") or "?").rsplit("::", 1)[-1],
                               ",".join(self.value_text(a, env) for a in x.get("args") or []))
        return text(x)

    def compare(self, c, env):
        op = c["op"]
        l, r_ = c["l"], c["r"]
        # `x == false`, `true != x`: boolean literal comparisons are just (negated) conditions
        for a, b_ in ((l, r_), (r_, l)):
            bl = peel(b_)
            if isinstance(bl, dict) and bl.get("k") == "lit" and bl.get("t") == "bool" and op in ("==", "!="):
                f = self.cond(a, env)
                pos = (bl.get("v") is True) == (op == "==")
                return f if pos else f_not(f)
        lv = lit_val(peel(l))
        rv = lit_val(peel(r_))
        # normalise literal to the right
        if lv is not None and rv is None:
            l, r_ = r_, l
            lv, rv = rv, lv
            op = {"<": ">", ">": "<", "<=": ">=", ">=": "<=", "==": "==", "!=": "!="}[op]
        ci = self.const_int(r_)
        lt = self.value_text(l, env)
        rnode = peel(r_)
        if isinstance(rnode, dict) and rnode.get("k") == "lit" and rnode.get("t") == "float":
            lit = str(rnode.get("v"))
            if op in ("<", ">="):
                a = self.atom("LT(%s,%s)" % (lt, lit))
                return a if op == "<" else f_not(a)
            if op in (">", "<="):
                a = self.atom("GT(%s,%s)" % (lt, lit))
                return a if op == ">" else f_not(a)
        if (isinstance(rv, str) and not (isinstance(rnode, dict) and rnode.get("t") == "float")) or (isinstance(rv, str) is False and c.get("lt") == "char" and isinstance(rv, str)):
            a = self.atom("EQ(%s,'%s')" % (lt, rv))
            return a if op == "==" else f_not(a) if op == "!=" else self.opq(c)
        # Some('D') comparisons
        rr = peel(r_)
        if isinstance(rr, dict) and rr.get("k") == "call" and (rr.get("f") or "").endswith("::Some") and op in ("==", "!="):
            v = lit_val(peel((rr.get("args") or [None])[0]))
            if isinstance(v, str):
                a = self.atom("EQ(%s,'%s')" % (lt, v))
                return a if op == "==" else f_not(a)
        if isinstance(rr, dict) and rr.get("k") == "def" and (rr.get("def") or "").endswith("::None") and op in ("==", "!="):
            a = self.atom("P(%s)" % lt)
            return f_not(a) if op == "==" else a
        if isinstance(ci, int) and (c.get("lt") or "").startswith(("usize", "u", "i")) or (isinstance(ci, int) and "len(" in lt):
            ge = lambda k: self.atom("GE(%s,%d)" % (lt, k)) if k > 0 else TRUE
            if op == ">":
                return ge(ci + 1)
            if op == ">=":
                return ge(ci)
            if op == "<":
                return f_not(ge(ci))
            if op == "<=":
                return f_not(ge(ci + 1))
            if op == "==":
                return f_and(ge(ci), f_not(ge(ci + 1)))
            if op == "!=":
                return f_not(f_and(ge(ci), f_not(ge(ci + 1))))
        if isinstance(rv, (int, float)) or (isinstance(rv, str) and c.get("lt") in ("f64", "f32")) or \
                (isinstance(peel(r_), dict) and peel(r_).get("t") == "float"):
            lit = str(lit_val(peel(r_)))
            if op in ("<", ">="):
                a = self.atom("LT(%s,%s)" % (lt, lit))
                return a if op == "<" else f_not(a)
            if op in (">", "<="):
                a = self.atom("GT(%s,%s)" % (lt, lit))
                return a if op == ">" else f_not(a)
        rt = self.value_text(r_, env)
        if op in ("==", "!="):
            a, b_ = sorted([lt, rt])
            at = self.atom("EQ2(%s,%s)" % (a, b_))
            return at if op == "==" else f_not(at)
        if op in ("<", ">="):
            at = self.atom("LT2(%s,%s)" % (lt, rt))
            return at if op == "<" else f_not(at)
        at = self.atom("GT2(%s,%s)" % (lt, rt))
        return at if op == ">" else f_not(at)

    def mcall_cond(self, c, env):
        m = c.get("m")
        recv = c.get("recv")
        args = c.get("args") or []
        if m in ("is_some", "is_none"):
            pl = self.place(recv, env)
            if pl is None:
                x = peel(recv)
                if isinstance(x, dict) and x.get("k") == "local" and env.get(x["id"], ("",))[0] == "value":
                    inner = env[x["id"]][1]
                    f = self.opt_formula(inner, env)
                    return f if m == "is_some" else f_not(f)
                f = self.opt_formula(recv, env)
                return f if m == "is_some" else f_not(f)
            a = self.atom("P(%s)" % pl)
            return a if m == "is_some" else f_not(a)
        if m == "is_empty":
            pl = self.value_text(recv, env)
            return f_not(self.atom("GE(len(%s),1)" % pl))
        if m == "is_some_and" and args:
            pl = self.place(recv, env)
            cl = args[0]
            if pl and cl.get("k") == "closure":
                e2 = dict(env)
                ps = cl.get("params") or []
                if ps and ps[0].get("k") == "bind":
                    e2[ps[0]["id"]] = ("place", pl)
                return f_and(self.atom("P(%s)" % pl), self.cond(cl["body"], e2))
        if m in ("unwrap_or",) and args and lit_val(args[0]) is False:
            # opt.map(|x| cond).unwrap_or(false)
            inner = recv
            if inner.get("k") == "mcall" and inner.get("m") == "map" and inner.get("args"):
                cl = inner["args"][0]
                base = inner["recv"]
                pl = self.place(base, env)
                if cl.get("k") == "closure":
                    e2 = dict(env)
                    ps = cl.get("params") or []
                    if ps and ps[0].get("k") == "bind" and pl:
                        e2[ps[0]["id"]] = ("place", pl)
                    pres = self.atom("P(%s)" % pl) if pl else self.opt_formula(base, env)
                    return f_and(pres, self.cond(cl["body"], e2))
        if m == "contains" and args:
            # an argument bound to a constant (closure run once per table member) is that constant
            a0_ = peel(args[0])
            if isinstance(a0_, dict) and a0_.get("k") == "local" and env.get(a0_["id"], ("",))[0] == "value" \
                    and lit_val(peel(env[a0_["id"]][1])) is not None:
                args = [env[a0_["id"]][1]] + list(args[1:])
            # TABLE.contains(&x.as_str())  |  text.contains("lit")
            strs = self.const_strs(recv)
            if strs is not None:
                vt = self.value_text(args[0], env)
                out = FALSE
                for s in sorted(set(strs)):
                    out = f_or(out, self.atom("EQ(%s,'%s')" % (vt, s)))
                return out
            v = lit_val(peel(args[0]))
            if isinstance(v, str):
                return self.atom("HAS(%s,'%s')" % (self.value_text(recv, env), v))
            return self.atom("IN(%s,%s)" % (self.value_text(args[0], env), self.value_text(recv, env)))
        if m in ("starts_with", "ends_with") and args:
            v = lit_val(peel(args[0]))
            if isinstance(v, str):
                return self.atom("%s(%s,'%s')" % (m.upper(), self.value_text(recv, env), v))
        if m in ("any", "all") and args and args[0].get("k") == "closure":
            base = recv
            while isinstance(base, dict) and base.get("k") == "mcall" and base.get("m") in ("iter", "into_iter", "enumerate"):
                base = base["recv"]
            pl = self.place(base, env) or self.value_text(base, env)
            cl = args[0]
            e2 = dict(env)
            ps = cl.get("params") or []
            if ps:
                q = ps[0]
                while q.get("k") in ("pref",):
                    q = q["pat"]
                if q.get("k") == "bind":
                    e2[q["id"]] = ("place", pl + "[*]")
                elif q.get("k") == "ptup" and q["pats"] and q["pats"][-1].get("k") == "bind":
                    e2[q["pats"][-1]["id"]] = ("place", pl + "[*]")
            inner = self.cond(cl["body"], e2)
            key = canon(inner)
            a = self.atom("%s(%s)" % (m.upper(), key))
            return a
        if m in ("eq", "ne") and args:
            fake = {"k": "bin", "op": "==" if m == "eq" else "!=", "l": recv, "r": args[0], "lt": c.get("rt")}
            return self.compare(fake, env)
        # one-expression helper methods of the same impl returning bool
        cal = callee(c)
        b = self.F.body_by_path.get(cal)
        if b is not None and (b.get("output") or "") == "bool" and "body" in b and not b.get("exp") and \
                (b.get("impl_self") or "").startswith(("messages::", "fields::")):
            return self.fn_formula(b, c, env)
        if m in ("is_ascii_digit", "is_ascii_alphabetic", "is_ascii_uppercase", "is_alphabetic", "is_ascii_alphanumeric",
                 "is_numeric", "is_alphanumeric", "is_uppercase"):
            return self.atom("%s(%s)" % (m.upper(), self.value_text(recv, env)))
        return self.opq(c)

    def opt_formula(self, e, env):
        """formula for `e` (an Option expression) being Some"""
        x = peel(e)
        if isinstance(x, dict):
            if x.get("k") == "mcall" and x.get("m") in ("first", "last") and not x.get("args"):
                # v.first() is Some exactly when v is not empty
                pv = self.place(x.get("recv"), env)
                if pv:
                    return self.atom("GE(len(%s),1)" % pv)
            pl = self.place(x, env)
            if pl:
                return self.atom("P(%s)" % pl)
            if x.get("k") == "mcall" and x.get("m") in ("and_then", "map", "as_ref", "filter"):
                return self.opt_formula(x["recv"], env) if x.get("m") != "filter" else self.opq(x)
            if x.get("k") == "local":
                a = env.get(x["id"])
                if a and a[0] == "value":
                    return self.opt_formula(a[1], env)
        return self.opq(e)

    def fn_formula(self, b, call, env):
        """formula for `b(...)` returning true; b is a crate bool fn (inlined, depth-limited)"""
        if self.depth > 4 or b["path"] in self.visiting:
            return self.atom("CALL(%s)" % b["path"].rsplit("::", 1)[-1])
        self.depth += 1
        self.visiting.add(b["path"])
        fenv = {}
        args = list(call.get("args") or [])
        if call.get("k") == "mcall":
            args = [call.get("recv")] + args
        for p, a in zip(b.get("params") or [], args):
            if p.get("k") == "bind":
                pl = self.place(a, env)
                if pl:
                    fenv[p["id"]] = ("place", pl)
                else:
                    fenv[p["id"]] = ("value", a)
        res = self.ret_formula(b["body"], TRUE, fenv)
        self.visiting.discard(b["path"])
        self.depth -= 1
        return res

    def ret_formula(self, n, pc, env):
        """formula under which a bool-valued body evaluates/returns true"""
        acc = []
        tail = self._rf(n, pc, env, acc)
        out = FALSE
        for f in acc:
            out = f_or(out, f)
        if tail is not None:
            out = f_or(out, tail)
        return out

    def _retval(self, e, env):
        """condition under which a `return e` returns true (false when the false-returns are being collected)"""
        f = self.cond(e, env)
        return f_not(f) if getattr(self, "_flip", False) else f

    def rf_for_loop(self, s, cur, env, acc):
        """a `for` inside a predicate: `if c(x) { return true }` is any(c); `if c(x) { return false }` lets the
        rest run only when all(!c). Same atoms as the iterator spelling (`ANY(..)` / `ALL(..)` over X[*])."""
        pat = s.get("pat") or {}
        if pat.get("k") == "ptup" and pat.get("pats"):
            pat = pat["pats"][-1]
        while isinstance(pat, dict) and pat.get("k") == "pref":
            pat = pat.get("pat")
        if not (isinstance(pat, dict) and pat.get("k") == "bind"):
            return None
        if any(x.get("k") in ("assign", "assignop") for x in walk(s["body"])):
            return None
        base = s.get("iter")
        while isinstance(base, dict) and ((base.get("k") == "mcall" and base.get("m") in ("iter", "into_iter", "enumerate"))
                                          or base.get("k") == "ref"):
            base = base["recv"] if base.get("k") == "mcall" else base["e"]
        pl = self.place(base, env) or self.value_text(base, env)
        e2 = dict(env)
        e2[pat["id"]] = ("place", pl + "[*]")
        t_acc, f_acc = [], []
        self._rf(s["body"], TRUE, dict(e2), t_acc)
        self._flip = True
        try:
            self._rf(s["body"], TRUE, dict(e2), f_acc)
        finally:
            self._flip = False
        t = FALSE
        for x in t_acc:
            t = f_or(t, x)
        f_ = FALSE
        for x in f_acc:
            f_ = f_or(f_, x)
        if len(atoms_of(t) | atoms_of(f_)) > 10:
            return None
        if t != FALSE and f_ == FALSE:
            a = self.atom("ANY(%s)" % canon(t))
            acc.append(f_and(cur, a))
            return f_and(cur, f_not(a))
        if f_ != FALSE and t == FALSE:
            return f_and(cur, self.atom("ALL(%s)" % canon(f_not(f_))))
        if t == FALSE and f_ == FALSE:
            return cur
        return None

    def _rf(self, n, pc, env, acc):
        """returns the formula of the block's value (None if it diverges)"""
        if n is None:
            return None
        k = n.get("k")
        if k == "block":
            cur = pc
            stmts_ = list(n.get("stmts") or [])
            tail_ = n.get("expr")
            if isinstance(tail_, dict) and tail_.get("k") == "if" and _unit_if(tail_):
                # an `if` without value in tail position is a statement
                stmts_.append(tail_)
                tail_ = None
                n = dict(n, stmts=stmts_, expr=None)
            for s in stmts_:
                if s.get("k") == "if" and isinstance(s.get("else"), dict) and s["else"].get("k") == "if":
                    s = dict(s)
                    s["else"] = {"k": "block", "stmts": [s["else"]], "expr": None}
                if s.get("k") == "let":
                    if s.get("els") is not None and s.get("init") is not None:
                        # let PAT = e else { leave }: the rest runs only when the pattern matches
                        f = self.cond({"k": "letx", "pat": s["pat"], "init": s["init"]}, env)
                        self._rf(s["els"], f_and(cur, f_not(f)), dict(env), acc)
                        cur = f_and(cur, f)
                        continue
                    self.do_let(s, env)
                    continue
                if s.get("k") == "ret":
                    acc.append(f_and(cur, self._retval(s.get("e"), env)))
                    return None
                if s.get("k") == "if":
                    cc = self.cond(s["cond"], env)
                    self._cur_out = None
                    tv = self._rf(s["then"], f_and(cur, cc), dict(env), acc)
                    t_out = self._cur_out if tv is not None else None
                    self._cur_out = None
                    ev_ = self._rf(s["else"], f_and(cur, f_not(cc)), dict(env), acc) if s.get("else") is not None else TRUE
                    e_out = self._cur_out if (s.get("else") is not None and ev_ is not None) else None
                    self._cur_out = None
                    td = tv is None
                    ed = s.get("else") is not None and ev_ is None
                    if td and ed:
                        return None
                    if td:
                        cur = e_out if e_out is not None else f_and(cur, f_not(cc))
                    elif ed:
                        cur = t_out if t_out is not None else f_and(cur, cc)
                    elif t_out is not None or e_out is not None:
                        # what is known when a branch falls through (e.g. a loop in it let every element pass)
                        cur = f_or(t_out if t_out is not None else f_and(cur, cc),
                                   e_out if e_out is not None else f_and(cur, f_not(cc)))
                    continue
                if s.get("k") == "for" and hasattr(self, "rf_for_loop"):
                    r_ = self.rf_for_loop(s, cur, env, acc)
                    if r_ is not None:
                        cur = r_
                        continue
                if s.get("k") in ("for", "while", "loop"):
                    # a loop that returns true/false from inside: opaque search
                    inner = []
                    self._rf(s["body"], TRUE, dict(env), inner)
                    if inner:
                        acc.append(f_and(cur, self.atom("OPQ(loop:%s)" % canon_or(inner))))
                    continue
            if n.get("expr") is not None:
                e = n["expr"]
                if e.get("k") == "for" and hasattr(self, "rf_for_loop"):
                    r_ = self.rf_for_loop(e, cur, env, acc)
                    if r_ is not None:
                        self._cur_out = r_
                        return FALSE      # no boolean value; its returns are in acc, r_ holds after it
                if e.get("k") in ("for", "while", "loop"):
                    inner = []
                    self._rf(e["body"], TRUE, dict(env), inner)
                    if inner:
                        acc.append(f_and(cur, self.atom("OPQ(loop:%s)" % canon_or(inner))))
                    return FALSE     # a loop in tail position has no boolean value; its early returns are in acc
                if e.get("k") == "ret":
                    acc.append(f_and(cur, self._retval(e.get("e"), env)))
                    return None
                if e.get("k") == "if":
                    cc = self.cond(e["cond"], env)
                    tv = self._rf(e["then"], f_and(cur, cc), dict(env), acc)
                    ev_ = self._rf(e["else"], f_and(cur, f_not(cc)), dict(env), acc) if e.get("else") is not None else None
                    out = FALSE
                    if tv is not None:
                        out = f_or(out, tv)
                    if ev_ is not None:
                        out = f_or(out, ev_)
                    return out
                if e.get("k") == "block":
                    return self._rf(e, cur, env, acc)
                return f_and(cur, self.cond(e, env))
            # a block without value that falls through: remember what holds at its end
            self._cur_out = cur
            return TRUE if getattr(self, "_unit_blocks", True) and n.get("stmts") else None
        if k == "ret":
            acc.append(f_and(pc, self._retval(n.get("e"), env)))
            return None
        return f_and(pc, self.cond(n, env))

    # ---- statements: collect error sites ---------------------------------------------
    def do_let(self, s, env):
        pat = s["pat"]
        init = s.get("init")
        if init is None:
            return
        if s.get("els") is not None:
            # let Some(x) = e else { return .. };
            return
        if pat.get("k") == "bind":
            ty = s.get("ty") or ""
            if ty == "bool":
                env[pat["id"]] = ("bool", self.cond(init, env))
                return
            pl = self.place(init, env)
            if pl:
                env[pat["id"]] = ("place", pl)
            else:
                env[pat["id"]] = ("value", init)

    def walk(self, n, pc, env, fn):
        """returns the path condition after n (None if n diverges)"""
        if n is None:
            return pc
        if isinstance(n, list):
            for x in n:
                if isinstance(x, dict):
                    pc = self.walk(x, pc, env, fn)
                    if pc is None:
                        return None
            return pc
        k = n.get("k")
        if k == "block":
            cur = pc
            for s in n.get("stmts") or []:
                cur = self.walk(s, cur, env, fn)
                if cur is None:
                    return None
            if n.get("expr") is not None:
                cur = self.walk(n["expr"], cur, env, fn)
            return cur
        if k == "let":
            if n.get("els") is not None and n.get("init") is not None:
                # let Some(x) = opt else { return };
                p = n["pat"]
                f = self.letx({"k": "letx", "pat": p, "init": n["init"]}, env)
                self.scan_expr(n["init"], pc, env, fn)
                self.walk(n["els"], f_and(pc, f_not(f)), dict(env), fn)
                return f_and(pc, f)
            if n.get("init") is not None:
                self.scan_expr(n["init"], pc, env, fn)
                # `x.as_ref()?` style early exit on None
                for t in walk(n["init"]):
                    if t.get("k") == "try" and "Option" in (t.get("t") or ""):
                        pc = f_and(pc, self.opt_formula(t["e"], env))
            self.do_let(n, env)
            return pc
        if k == "if":
            cc = self.cond(n["cond"], env)
            self.scan_expr(n["cond"], pc, env, fn)
            et = dict(env)
            # bindings made by let-chains live in the then branch: cond() bound them in env already
            t = self.walk(n["then"], f_and(pc, cc), et, fn)
            e = self.walk(n["else"], f_and(pc, f_not(cc)), dict(env), fn) if n.get("else") is not None else f_and(pc, f_not(cc))
            if t is None and e is None:
                return None
            if t is None:
                return e
            if e is None:
                return t
            return pc
        if k == "match":
            self.scan_expr(n["e"], pc, env, fn)
            negs = TRUE
            alive = False
            for arm in n.get("arms") or []:
                ea = dict(env)
                pcnd = self.pat_cond(arm["pat"], n["e"], ea)
                g = self.cond(arm["guard"], ea) if arm.get("guard") else TRUE
                r = self.walk(arm["body"], f_and(pc, f_and(negs, f_and(pcnd, g))), ea, fn)
                if r is not None:
                    alive = True
                negs = f_and(negs, f_not(f_and(pcnd, g)))
            return pc if alive else None
        if k == "for":
            e2 = dict(env)
            base = n["iter"]
            while isinstance(base, dict) and base.get("k") in ("mcall", "ref") and \
                    (base.get("k") == "ref" or base.get("m") in ("iter", "enumerate", "into_iter", "iter_mut", "skip")):
                base = base["recv"] if base.get("k") == "mcall" else base["e"]
            pl = self.place(base, env)
            pat = n["pat"]
            if pat.get("k") == "ptup" and pat["pats"]:
                pat = pat["pats"][-1]
            while pat.get("k") == "pref":
                pat = pat["pat"]
            if pat.get("k") == "bind" and pl:
                e2[pat["id"]] = ("place", pl + "[i]")
            self.walk(n["body"], pc, e2, fn)
            return pc
        if k in ("while", "loop"):
            e2 = dict(env)
            c = self.cond(n["cond"], e2) if n.get("cond") is not None else TRUE
            self.walk(n["body"], f_and(pc, self.atom("OPQ(loop@%s)" % text(n.get("cond")))) if n.get("cond") is not None else pc, e2, fn)
            return pc
        if k == "ret":
            if n.get("e") is not None:
                self.scan_expr(n["e"], pc, env, fn)
            return None
        if k in ("break", "continue"):
            return None
        self.scan_expr(n, pc, env, fn)
        return pc

    def scan_expr(self, n, pc, env, fn):
        """find error constructor calls and calls to rule helpers inside an expression"""
        if n is None:
            return
        if isinstance(n, list):
            for x in n:
                self.scan_expr(x, pc, env, fn)
            return
        if not isinstance(n, dict):
            return
        k = n.get("k")
        if k in ("if", "match", "block", "for", "while", "loop", "let", "ret"):
            self.walk(n, pc, dict(env) if k != "block" else env, fn)
            return
        if k == "closure":
            e2 = dict(env)
            self.walk(n["body"], pc, e2, fn)
            return
        if k == "mcall" and any(isinstance(a, dict) and a.get("k") == "closure" for a in n.get("args") or []):
            # an adapter chain decides whether / for which element the closure runs: that decision is part of the
            # path condition of everything inside the closure, and it is not interpreted -> opaque atom
            self.scan_expr(n.get("recv"), pc, env, fn)
            inner = f_and(pc, self.atom("OPQ(%s.%s)" % (text(n.get("recv")), n.get("m"))))
            for a in n.get("args") or []:
                if isinstance(a, dict) and a.get("k") == "closure":
                    self.walk(a["body"], inner, dict(env), fn)
                else:
                    self.scan_expr(a, pc, env, fn)
            return
        if k == "bin" and n.get("op") == "&&":
            self.scan_expr(n["l"], pc, env, fn)
            self.scan_expr(n["r"], f_and(pc, self.cond(n["l"], env)), env, fn)
            return
        if k == "call" and any((n.get("f") or "").endswith(s) for s in ERR_CTORS):
            a = n.get("args") or []
            code = lit_val(a[0]) if a else None
            if code is None and a:
                x = peel(a[0])
                if isinstance(x, dict) and x.get("k") == "def":
                    code = (x.get("def") or "").rsplit("::", 1)[-1]
            self.sites.append({"code": code, "f": pc, "file": fn["file"], "ln": n.get("ln"), "fn": fn["path"]})
            return
        if k in ("call", "mcall"):
            cal = callee(n)
            b = self.F.body_by_path.get(cal)
            if b is not None and "body" in b and not b.get("exp") and "SwiftValidationError" in (b.get("output") or "") \
                    and b["path"] not in self.visiting and self.depth < 5 and \
                    (b.get("impl_self") or "").startswith("messages::"):
                self.depth += 1
                self.visiting.add(b["path"])
                fenv = {}
                args = list(n.get("args") or [])
                if n.get("k") == "mcall":
                    args = [n.get("recv")] + args
                for p, a in zip(b.get("params") or [], args):
                    if p.get("k") == "bind":
                        if (b.get("inputs") or [""] * 9)[(b.get("params") or []).index(p)] == "bool":
                            fenv[p["id"]] = ("flag",)
                        else:
                            pl = self.place(a, env)
                            fenv[p["id"]] = ("place", pl) if pl else ("value", a)
                self.walk(b["body"], pc, fenv, b)
                self.visiting.discard(b["path"])
                self.depth -= 1
                return
        for key, v in n.items():
            if isinstance(v, (dict, list)) and key not in ("pat", "pats"):
                self.scan_expr(v, pc, env, fn)

    def run(self, main):
        env = {}
        for p, t in zip(main.get("params") or [], main.get("inputs") or []):
            if p.get("k") == "bind" and t == "bool":
                env[p["id"]] = ("flag",)
        self.visiting.add(main["path"])
        self.walk(main["body"], TRUE, env, main)
        # rule functions handed around as values (a table of fn pointers run in a loop) are run as well: each is
        # entered under the path condition of the dispatcher's entry
        from .valid import with_const_tables
        own = {id(n) for n in walk(main["body"])}
        for n in list(with_const_tables(self.F, main["body"])):
            # a closure in a table kept in a `const` that only wraps one rule call
            # (`|m| Vec::from_iter(m.validate_c4())`)
            if n.get("k") in ("call", "mcall") and id(n) not in own:
                hb0 = self.F.body_by_path.get(callee(n))
                if hb0 is not None and "body" in hb0 and not hb0.get("exp") and hb0["path"] not in self.visiting and \
                        "SwiftValidationError" in (hb0.get("output") or "") and \
                        (hb0.get("impl_self") or "").startswith("messages::") and hb0["name"].startswith("validate_") \
                        and hb0["name"] != "validate_network_rules":
                    self.visiting.add(hb0["path"])
                    self.walk(hb0["body"], TRUE, {}, hb0)
            if n.get("k") == "def" and n.get("dk") in ("assoc_fn", "fn"):
                hb = self.F.body_by_path.get(n.get("def"))
                if hb is not None and "body" in hb and not hb.get("exp") and hb["path"] not in self.visiting and \
                        "SwiftValidationError" in (hb.get("output") or "") and \
                        (hb.get("impl_self") or "").startswith("messages::"):
                    self.visiting.add(hb["path"])
                    fenv = {}
                    for p in hb.get("params") or []:
                        if p.get("k") == "bind" and p.get("name") == "self":
                            pass
                    self.walk(hb["body"], TRUE, fenv, hb)
        return self.sites


def is_const_range(i):
    if not isinstance(i, dict) or i.get("k") != "struct":
        return False
    return all(lit_val(f["e"]) is not None for f in i.get("fields") or [])


def canon(f):
    """canonical string of a formula: sorted atoms + truth table"""
    A = sorted(atoms_of(f))
    if len(A) > 10:
        return show(f)
    bits = []
    for vals in itertools.product([False, True], repeat=len(A)):
        bits.append("1" if ev(f, dict(zip(A, vals))) else "0")
    return "%s:%s" % (",".join(A), "".join(bits))


def canon_or(fs):
    out = FALSE
    for f in fs:
        out = f_or(out, f)
    return canon(out)


def extract_type(F, tm):
    from .valid import vnr
    main, tr = vnr(F, tm.T)
    if main is None:
        return []
    ex = Extract(F, tm)
    return ex.run(main)
