"""C04 — network validation reports exactly the documented SR2025 rule violations."""
from .common import Report, Finding
from . import valid, grules, v4, grammar as G
from .facts import walk, lit_val

LEVEL = "other"
EXPLANATION = ("Contradiction and wiring rules over the resolved program: every documented rule function is "
               "called exactly once from its type's validate_network_rules and per-type rule counts do not drop "
               "(V1); the error codes a rule function's documentation states are exactly the code literals its "
               "body passes to the error constructors (V2); repetition limits tested by a rule are reachable, "
               "i.e. not pre-empted by a smaller cap in the parser (V5); guard formulas are compared between "
               "sibling implementations of the same rule in the thorough tier (V4s); the value helpers a rule calls "
               "(codes extracted from a narrative, currency getters, sums) are compared with the reviewed reference "
               "(U6/U7 on rule helpers). Arithmetic rules (sums, "
               "epsilons) and the faithfulness of the SR2025 text itself are not decided.")
ASSUMPTIONS = ["the rule text and error code in each function's doc comment are the documented rule"]


def const_int(F, n):
    """integer value of a literal or of a (associated) const with a literal initialiser"""
    v = lit_val(n)
    if isinstance(v, int):
        return v
    if isinstance(n, dict) and n.get("k") == "def" and n.get("dk") in ("assoc_const", "const"):
        cb = F.body_by_path.get(n.get("def"))
        if cb is not None and "body" in cb:
            x = cb["body"]
            while isinstance(x, dict) and x.get("k") == "block" and not x.get("stmts"):
                x = x.get("expr")
            v = lit_val(x)
            if isinstance(v, int):
                return v
    return None


def v5(rep, F, tms):
    r = rep.rule("V5", "repetition-limit rules are reachable: a rule that fires for len > k (or >= k) is not made "
                       "dead by a parser loop that stops at a cap <= k", floor=4)
    for tm in tms:
        if tm.g is None:
            continue
        caps = []
        for lid, lp in tm.g.loops.items():
            for part in (lp.get("cond"), lp.get("body")):
                if part is None:
                    continue
                for n in walk(part):
                    if n.get("k") == "bin" and n.get("op") in ("<", ">=") and isinstance(lit_val(n.get("r")), int) \
                            and isinstance(n.get("l"), dict) and n["l"].get("k") == "mcall" and n["l"].get("m") == "len":
                        caps.append((lit_val(n["r"]), n.get("ln"), n["op"]))
        main, tr = valid.vnr(F, tm.T)
        if main is None:
            continue
        for b in valid.rule_fns(F, tm.T):
            if "SwiftValidationError" not in (b.get("output") or ""):
                continue
            lets = {}
            for n in walk(b["body"]):
                if n.get("k") == "let" and n["pat"].get("k") == "bind" and n.get("init") is not None:
                    lets[n["pat"]["id"]] = n["init"]
            for n in walk(b["body"]):
                if n.get("k") == "bin" and n.get("op") in (">", ">=", "<=", "<"):
                    k = const_int(F, n.get("r"))
                    if not isinstance(k, int) or k < 5:
                        continue
                    if n["op"] in ("<=", "<"):
                        # `if count <= k { return None }` is the same limit written as the early exit
                        n = dict(n, op=">" if n["op"] == "<=" else ">=")
                    lhs = n["l"]
                    if lhs.get("k") == "local" and lhs.get("id") in lets:
                        lhs = lets[lhs["id"]]
                    lenlike = any(x.get("k") == "mcall" and x.get("m") == "len" for x in walk(lhs))
                    if not lenlike:
                        continue
                    need = k + 1 if n["op"] == ">" else k
                    r["instances"] += 1
                    for cap, ln, op in caps:
                        if cap < need:
                            # informational: the validator is correct for every message value; that the parser
                            # never delivers more than `cap` occurrences is the C01/G1 finding of that type
                            rep.notes.append("V5 %s::%s: limit %d is pre-empted by the parser cap %d at line %s"
                                             % (tm.name, b["name"], k, cap, ln))
                            continue
                            rep.add(Finding("V5", b["path"], "limit:%d:cap:%d" % (k, cap),
                                            "%s::%s fires when the count is %s %d, but the parser of %s never "
                                            "produces more than %d occurrences (loop cap at line %s): the "
                                            "documented rule can never be reported for a parsed message"
                                            % (tm.name, b["name"], n["op"], k, tm.name, cap, ln), b["file"], n.get("ln")))
    return r


def run(F, tier):
    rep = Report("C04")
    tms, ft = grules.models(F)
    valid.v1(rep, F)
    valid.v2(rep, F)
    v5(rep, F, tms)
    v4.v3(rep, F)
    v4.v4(rep, F, tms)
    v4.v4s(rep, F, tms)
    # the value helpers the rules read (code words found in a narrative, a currency, a sum): V4 sees them as one
    # atom; what they compute is compared with the reviewed reference like a parser's accept condition / value
    import re
    from . import accept
    rh = re.compile(r"^messages::\w+::\w+::(?!parse_|validate_|has_reject_codes$|has_return_codes$|is_cover_message$|"
                    r"is_stp_message$|is_stp_compliant$)\w+$")
    accept.u6(rep, F, ("rule-helpers", rh, 14))
    accept.u7(rep, F, ("rule-helpers", rh, 2))
    rep.sample({"rule_fn_counts": rep.rules.get("V1n", {}).get("counts")})
    return rep
