"""C06 — monetary amounts and rates are accepted only as decimals and preserved exactly."""
from .common import Report
from . import emit
from . import accept
from . import numdate
from .fieldtab import FieldTab

LEVEL = "other"
EXPLANATION = ("Who-may-call and pairing rules over the resolved program: text becomes f64 at exactly one site, "
               "which must be dominated by a digits-and-separator shape test (N1: rules out NaN/inf/exponent/"
               "sign spellings and non-finite JSON numbers at the only source of f64 values); every amount type "
               "with a currency renders through the currency-aware formatter and parses through the currency "
               "decimal check (N2); types without currency pair their fixed output precision with a decimal "
               "limit on input (N3). Exactness of binary floating point itself is not decided.")
ASSUMPTIONS = ["derived serde writes f64 components directly, so a finite parsed value is a finite JSON number"]


def run(F, tier):
    rep = Report("C06")
    ft = FieldTab(F)
    numdate.n1(rep, F)
    numdate.n2_n3(rep, F, ft)
    rep.sample({"amount_types": [(t.split("::")[-1], f, c) for t, f, c in numdate.amount_types(ft)]})
    accept.u6(rep, F, "amount")
    accept.u7(rep, F, "amount")
    emit.e1(rep, F, "amount")
    # the currency -> decimal places table is the oracle of N2: it is itself compared with the reviewed table
    from . import v4
    v4.v3(rep, F, only=r"get_currency_decimals$")
    return rep
